package jsonata

// Witness for the defect found by the slice obligations of jlib.Split / jlib.replaceMatchFunc (properties C09 and C17):
// $split and $replace accept a matcher *function* in place of a regex and slice the source string at the 'start' and
// 'end' offsets that function reports, without checking them:
//   $replace("abc", function($s){{"match":"x","start":10,"end":20,"groups":[],"next":function(){()}}}, "y")
// panicked with "slice bounds out of range [:10] with length 3" and the panic escaped Eval.
// Repaired by the commit recorded in /verif/known_findings.jsonl (offsets outside the string, or out of order, are an error).

import (
	"testing"
)

func TestWitnessC09MatcherOffsets(t *testing.T) {
	bad := `function($s){{"match":"x","start":10,"end":20,"groups":[],"next":function(){()}}}`
	for _, prog := range []string{`$replace("abc", ` + bad + `, "y")`, `$split("abc", ` + bad + `)`} {
		func() {
			defer func() {
				if r := recover(); r != nil {
					t.Fatalf("WITNESS: %s panics: %v", prog, r)
				}
			}()
			if _, err := MustCompile(prog).Eval(nil); err == nil {
				t.Fatalf("%s: expected an error", prog)
			}
		}()
	}
	// a well-behaved matcher still works
	good := `function($s){{"match":"b","start":1,"end":2,"groups":[],"next":function(){()}}}`
	v, err := MustCompile(`$replace("abc", ` + good + `, "y")`).Eval(nil)
	if err != nil || v != "ayc" {
		t.Fatalf("well-behaved matcher: %v %v", v, err)
	}
}
