package jsonata

// Witness for the defect repaired in 2618b2d (property C04): a regular expression directly after an opening bracket,
// brace, parenthesis, unary minus or pipe was lexed as a division and rejected.

import (
	"testing"
)

func TestWitnessC04RegexAfterPrefix(t *testing.T) {
	for _, src := range []string{`[/ab/]`, `(/ab/)("ab")`, `{"a": /ab/}`, `$match("ab", /a(b)/)`} {
		if _, err := Compile(src); err != nil {
			t.Fatalf("WITNESS: Compile(%q): %v", src, err)
		}
	}
	if _, err := Compile(`1 / 2 / 3`); err != nil {
		t.Fatalf("division: %v", err)
	}
}
