//go:build verif

package jlib

// Contracts for package jlib (built-in function library), checked by /verif/govc.
// Comment-only file behind the build tag verif. Vocabulary: see jtypes/zz_contracts_verif.go.

//@ props C09

// Boolean: the JSONata boolean cast. ufb_truthy(v) names its result; the clauses below say what it is for
// every kind of value (booleans themselves, non-empty strings, non-zero numbers, arrays with a truthy
// member, non-empty objects; everything else - null, functions, 'no value' - is false).
// Termination of the recursion over nested arrays is not proved (no size measure on reflect values).
//@ func Boolean
//@   props C03 C09 C02
//@   ensures [defines] result == ufb_truthy(v)
//@   ensures [C03:cast-bool] kind(res(v)) == 1 ==> result == bval(res(v))
//@   ensures [C03:cast-string] kind(res(v)) == 24 ==> result == (len(sval(res(v))) != 0)
//@   ensures [C03:cast-number] kind(res(v)) == 14 ==> result == !(fval(res(v)) == 0.0)
//@   ensures [C03:cast-array] arrKind(kind(res(v))) ==> result == (exists j in [0, rvlen(res(v))): ufb_truthy(at(res(v), j)))
//@   ensures [C03:cast-object] kind(res(v)) == 21 ==> result == (rvlen(res(v)) > 0)
//@   ensures [C03:cast-other] (kind(res(v)) != 1 && kind(res(v)) != 24 && !numKind(kind(res(v))) && !arrKind(kind(res(v))) && kind(res(v)) != 21) ==> !result
//@   assigns nothing
//@   loop 0 invariant 0 <= i && i <= rvlen(v)
//@   loop 0 invariant v == res(old(v))
//@   loop 0 invariant forall j in [0, i): !ufb_truthy(at(v, j))

// String: the JSON string form of a value (json.Encoder: trusted, external)
//@ func String
//@   props C03 C09 C16
//@   ensures r1 != nil ==> len(r0) == 0
//@   assigns nothing
//@   trusted

// END OF CONTRACTS (package jlib)
