package jsonata

// Witness for the defect found by obligation processGoCallableArg:assert-type:1 (property C09): an argument whose
// reflect type implements jtypes.Convertible is converted with arg.Interface().(jtypes.Convertible).ConvertTo(...)
// - an unchecked assertion. A nil interface-kinded Value whose static type is an interface with that method set
// passes the Implements test (it is the interface type itself), Interface() is the nil interface and the assertion
// panics. Eval accepts a reflect.Value as input, so $uppercase($) on such a Value panics instead of reporting an
// argument type error. Repaired by the commit recorded in /verif/known_findings.jsonl.

import (
	"reflect"
	"testing"

	"github.com/blues/jsonata-go/jtypes"
)

func TestWitnessC09NilConvertibleArgument(t *testing.T) {
	defer func() {
		if r := recover(); r != nil {
			t.Fatalf("WITNESS: panic: %v", r)
		}
	}()
	m := map[string]jtypes.Convertible{"c": nil}
	v := reflect.ValueOf(m).MapIndex(reflect.ValueOf("c"))
	if _, err := MustCompile(`$uppercase($)`).Eval(v); err == nil {
		t.Fatalf("a nil Convertible was accepted as a string argument")
	}
	// a regular expression (the Convertible of the evaluator) still converts where a function is expected
	out, err := MustCompile(`$contains("abc", /b/)`).Eval(nil)
	if err != nil || out != true {
		t.Fatalf("ordinary conversion: %v %v", out, err)
	}
}
