package main

import (
	"fmt"
	"go/ast"
	"go/types"
	"os"

	"golang.org/x/tools/go/ssa"
)

// ---------------------------------------------------------------------------
// Calls to library functions in caller-side clauses: `atcall json.Unmarshal#0 requires callee_arg0 == data` and
// ret("json.Unmarshal#0", 1) work for external callees too. The callee is named <package name>.<function> (methods:
// <package name>.<Type>.<method>), its parameters arg0, arg1, ... (export data carries no parameter names).

func extName(fn *ssa.Function) string {
	s := shortFn(fn)
	if fn.Pkg != nil {
		return fn.Pkg.Pkg.Name() + "." + s
	}
	return s
}

func (x *vc) externalCallClauses(fr *frame, st *state, callee *ssa.Function, args []Val, pos string) {
	if !fr.top || x.topFC == nil || len(x.topFC.atcalls) == 0 {
		return
	}
	what := extName(callee)
	if x.extOrd == nil {
		x.extOrd = map[string]int{}
	}
	ord := x.extOrd[what]
	x.extOrd[what] = ord + 1
	for _, ac := range x.topFC.atcalls {
		if ac.callee != what || ac.ordinal != ord {
			continue
		}
		env := x.contractEnv(fr, st, nil)
		for i, a := range args {
			env.vars[fmt.Sprintf("callee_arg%d", i)] = a
		}
		detail := fmt.Sprintf("%s#%d", what, ord)
		if ac.cl.tag != "" {
			detail += "." + ac.cl.tag
		}
		x.oblige(st, "callarg", detail, x.evalBool(env, ac.cl.expr), pos, "argument clause for this library call: "+ac.cl.text, false)
		ac.seen = true
	}
}

// hashableKey: a map with an interface-typed key panics at run time ("hash of unhashable type") when the key's dynamic
// type is a slice, a map, a function or a struct/array containing one. The obligation accepts the dynamic kinds that
// are always hashable (booleans, numbers, strings, pointers, channels) and the nil interface; struct, array and
// interface kinds would need their field types and are not accepted.
func (x *vc) hashableKey(st *state, mt *types.Map, k Val, pos string) {
	if _, isIface := mt.Key().Underlying().(*types.Interface); !isIface || k.T == "" {
		return
	}
	kd := app("kind_of_type", app("itag", k.T)) // declared in the reflect prelude, included whenever the name occurs

	// kinds Func (19), Map (21) and Slice (23) are never hashable; struct, array and interface kinds are hashable when
	// their components are (assumed: see the note on reflect.Type.Comparable)
	ok := or(eq(app("itag", k.T), "0"), and(app("<=", "1", kd), app("<=", kd, "26"), not(eq(kd, "19")), not(eq(kd, "21")), not(eq(kd, "23"))))
	x.check(st, "hashable", "", ok, pos, "map key of interface type: the dynamic type must be hashable (not a slice, map, function, or a struct/array holding one)")
}

// mapInvFormula: the declared invariant of map type mt applied to value v ("" when none is declared)
func (x *vc) mapInvFormula(st *state, mt *types.Map, v Val) string {
	if x.p.cons.mapInv == nil || v.T == "" {
		return ""
	}
	pn, ok := x.p.cons.mapInv[types.TypeString(mt, func(p *types.Package) string { return p.Name() })]
	if !ok {
		return ""
	}
	pd, ok := x.p.cons.preds[pn]
	if !ok || len(pd.params) != 1 {
		return ""
	}
	env := &cenv{x: x, vars: map[string]Val{pd.params[0].name: v}, st: st, old: st}
	if sp, ok := x.p.spkgs[pd.pkg]; ok {
		env.pkg = sp.Pkg
	}
	return x.evalBool(env, pd.body)
}

func (x *vc) recordExternalResult(fr *frame, callee *ssa.Function, res Val, guard string) {
	x.recordNamedResult(fr, extName(callee), res, guard)
}

// recordNamedResult: the result of the k-th call named what (in generation order), for ret("what#k", i)
func (x *vc) recordNamedResult(fr *frame, what string, res Val, guard string) {
	if !fr.top {
		return
	}
	if x.callRes == nil {
		x.callRes = map[string]Val{}
		x.callResOrd = map[string]int{}
	}
	if x.callGuard == nil {
		x.callGuard = map[string]string{}
	}
	k := x.callResOrd[what]
	x.callResOrd[what] = k + 1
	key := fmt.Sprintf("%s#%d", what, k)
	x.callRes[key] = res
	x.callGuard[key] = guard
}

// phiFuncCandidates: the repository functions under contract that a function-typed phi may hold (nil when v is not
// such a phi, or when one of its edges is anything but a function under contract or the nil constant)
func (x *vc) phiFuncCandidates(v ssa.Value) []*ssa.Function {
	var out []*ssa.Function
	seen := map[ssa.Value]bool{}
	ok := true
	var walk func(v ssa.Value)
	walk = func(v ssa.Value) {
		if seen[v] {
			return
		}
		seen[v] = true
		switch v := v.(type) {
		case *ssa.Phi:
			for _, e := range v.Edges {
				walk(e)
			}
		case *ssa.Function:
			if fc := x.p.cons.get(fnKey(v)); fc == nil || fc.inline {
				ok = false
			} else {
				out = append(out, v)
			}
		case *ssa.Const:
			if !v.IsNil() {
				ok = false
			}
		default:
			ok = false
		}
	}
	if _, isPhi := v.(*ssa.Phi); !isPhi {
		return nil
	}
	walk(v)
	if !ok {
		return nil
	}
	return out
}

// rtypeOfInit: the Go type whose descriptor the initialiser expression of a reflect.Type package variable builds
// (nil when the expression is not one of the recognised forms). Forms: reflect.TypeOf(e) for e of a concrete static
// type, X.Elem(), reflect.MapOf(K, V), reflect.SliceOf(E), reflect.PtrTo(E), and references to other immutable
// package variables initialised that way.
func (x *vc) rtypeOfInit(e ast.Expr, info *types.Info, depth int) types.Type {
	if depth > 6 || e == nil || info == nil {
		return nil
	}
	refGlobal := func(obj types.Object) types.Type {
		v, ok := obj.(*types.Var)
		if !ok || v.Pkg() == nil {
			return nil
		}
		sp := x.p.spkgs[v.Pkg().Path()]
		if sp == nil {
			return nil
		}
		g, ok := sp.Members[v.Name()].(*ssa.Global)
		if !ok || !x.globalImmutable(g) {
			return nil
		}
		init, inf := x.p.findGlobalInit(g)
		return x.rtypeOfInit(init, inf, depth+1)
	}
	switch e := e.(type) {
	case *ast.ParenExpr:
		return x.rtypeOfInit(e.X, info, depth+1)
	case *ast.Ident:
		return refGlobal(info.Uses[e])
	case *ast.SelectorExpr:
		if obj := info.Uses[e.Sel]; obj != nil {
			return refGlobal(obj)
		}
	case *ast.CallExpr:
		sel, ok := e.Fun.(*ast.SelectorExpr)
		if !ok {
			return nil
		}
		if pk, ok := sel.X.(*ast.Ident); ok {
			if pn, ok := info.Uses[pk].(*types.PkgName); ok && pn.Imported().Path() == "reflect" {
				var as []types.Type
				for _, a := range e.Args {
					if sel.Sel.Name == "TypeOf" {
						t := info.TypeOf(a)
						if t == nil || types.IsInterface(t) {
							return nil
						}
						as = append(as, t)
					} else {
						t := x.rtypeOfInit(a, info, depth+1)
						if t == nil {
							return nil
						}
						as = append(as, t)
					}
				}
				switch {
				case sel.Sel.Name == "TypeOf" && len(as) == 1:
					return as[0]
				case sel.Sel.Name == "MapOf" && len(as) == 2:
					return types.NewMap(as[0], as[1])
				case sel.Sel.Name == "SliceOf" && len(as) == 1:
					return types.NewSlice(as[0])
				case (sel.Sel.Name == "PtrTo" || sel.Sel.Name == "PointerTo") && len(as) == 1:
					return types.NewPointer(as[0])
				}
				return nil
			}
		}
		if sel.Sel.Name == "Elem" && len(e.Args) == 0 {
			switch t := x.rtypeOfInit(sel.X, info, depth+1).(type) {
			case nil:
				return nil
			default:
				switch u := t.Underlying().(type) {
				case *types.Pointer:
					return u.Elem()
				case *types.Slice:
					return u.Elem()
				case *types.Array:
					return u.Elem()
				case *types.Map:
					return u.Elem()
				}
			}
		}
	}
	return nil
}

// dropTaggedPostsFor: analysis mode, see applyContract
var dropTaggedPostsFor = os.Getenv("GOVC_DROP_TAGGED_POSTS")
