#!/bin/bash
# usage: seed_matrix.sh [out-file] : runs every seeded change against the check of its own property (scratch worktrees)
out=${1:-/verif/seeded/RESULTS.txt}
: > $out
for d in /verif/seeded/C*-*/; do
  s=$(basename $d); p=${s%-*}
  r=$(/verif/tools/try_patch.sh $d/patch.diff $p 2>&1 | grep -c "^VIOLATION")
  first=$(/verif/tools/try_patch.sh $d/patch.diff $p 2>&1 | grep "^VIOLATION" | head -1 | sed 's#.*replays/[A-Z0-9]*/##' | cut -c1-150)
  echo "$s $p violations=$r first=$first" >> $out
done
