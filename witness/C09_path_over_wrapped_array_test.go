package jsonata

// Witness for the defect found by obligation evalOverArray:rv:Len:0 (properties C09 and C01): a path evaluated with an
// array as context item that is held in an interface-kinded reflect.Value - the member of an outer array kept as a
// unit by an array-constructor step, e.g. [[1,2]].(a.b) - reached evalOverArray unresolved; reflect.Value.Len
// panicked and the panic escaped Eval. Repaired by the commit recorded in /verif/known_findings.jsonl.

import (
	"testing"
)

func TestWitnessC09PathOverWrappedArray(t *testing.T) {
	for _, prog := range []string{`[[1,2]].(a.b)`, `[[{"a":{"b":7}}]].(a.b)`} {
		func() {
			defer func() {
				if r := recover(); r != nil {
					t.Fatalf("WITNESS: %s panics: %v", prog, r)
				}
			}()
			_, err := MustCompile(prog).Eval(nil)
			if err != nil && err != ErrUndefined {
				t.Fatalf("%s: %v", prog, err)
			}
		}()
	}
}
