package main

import (
	"fmt"
	"go/types"
	"sort"
	"strings"
	"time"

	"golang.org/x/tools/go/ssa"
)

type funcResult struct {
	key        string
	obls       []*obligation
	notes      []string
	trusted    []string
	err        string // generator failure (function outside the subset)
	script     func(o *obligation) string
	byContract []string
	inlined    []string
	genS       float64
	safetyOnly bool
	x          *vc
	reach      []*obligation
}

// verifyFunction generates all obligations for one function under contract.
func verifyFunction(p *program, fn *ssa.Function, fc *funcContract, safetyOnly bool) (res *funcResult) {
	res = &funcResult{key: fnKey(fn), safetyOnly: safetyOnly}
	x := newVC(p, fn, fc)
	x.safetyOnly = false
	x.t0 = time.Now()
	defer func() {
		if r := recover(); r != nil {
			if ce, ok := r.(cevalErr); ok {
				res.err = "contract error: " + ce.msg
				return
			}
			if gb, ok := r.(genBudget); ok {
				res.err = "generator budget: " + gb.msg
				return
			}
			panic(r)
		}
	}()
	x.decls = append(x.decls, "(define-fun empty_arr () (Array Int Int) ((as const (Array Int Int)) 0))", "(define-fun rv_zero () Int 0)", "(declare-fun nextRef!0 () Int)")
	x.assume("true", app(">", "nextRef!0", fmt.Sprint(maxGlobals)))
	st := &state{heap: map[string]string{}, guard: "true", nextRef: "nextRef!0"}
	fr := x.newFrame(fn, 0)
	fr.top = true
	fr.fc = fc
	x.topFrame = fr
	x.stack = []*ssa.Function{fn}
	readOnlyCallee = func(c *ssa.Function) bool {
		cc := p.cons.get(fnKey(c))
		return cc != nil && !cc.assumeFrame && (cc.pure || (cc.assigns != nil && len(cc.assigns) == 0))
	}
	x.escInfo = escapeAnalysis(fn)
	for _, prm := range fn.Params {
		v := x.freshVal("p_"+prm.Name(), prm.Type(), st)
		fr.vals[prm] = v
		fr.params[prm.Name()] = v
		x.inputs = append(x.inputs, inputVar{name: prm.Name(), term: v.T, sort: x.srt.sortOf(prm.Type()), typ: prm.Type()})
	}
	for _, fv := range fn.FreeVars {
		v := x.freshVal("fv_"+fv.Name(), fv.Type(), st)
		fr.vals[fv] = v
		if _, isPtr := fv.Type().Underlying().(*types.Pointer); isPtr && v.T != "" {
			// a captured variable is the address of a live variable of the enclosing function: never nil
			x.assume("true", app(">", v.T, "0"))
		}
	}
	fr.entry = st.clone()
	env := x.contractEnv(fr, st, nil)
	if fc != nil {
		for _, r := range fc.requires {
			g := x.evalBool(env, r.expr)
			if r.tag == "lemma" {
				// `requires [lemma] P`: a consequence of the preceding preconditions, proved here once (so that the body can
				// use it in this form) and not demanded again at call sites
				x.oblige(st, "lemma-pre", "", g, p.pos(fn.Pos()), "consequence of the preceding preconditions: "+r.text, false)
			}
			x.assume("true", g)
		}
	}
	x.entry = st.clone()
	if fc != nil {
		for _, d := range fc.fdecr {
			x.entryMeasure = append(x.entryMeasure, x.define("measure0", sInt, x.evalInt(env, d.expr)))
		}
	}
	out := x.execBody(fr, st)
	pos := p.pos(fn.Pos())
	if !out.noRet && fc != nil {
		post := x.contractEnv(fr, out.st, nil)
		post.old = x.entry
		x.bindResults(post, fn.Signature, tupleOf(out.vals, fn.Signature))
		// `ensures [ghost] forall t in R: ufb_f(key, t) == e`: definition of a fresh spec function on a freshly
		// allocated key from the final state of this activation (a conservative extension: assumed here so that the
		// other postconditions can be phrased with it; never assumed at call sites, where only those other
		// postconditions are visible)
		for _, e := range fc.ensures {
			if e.tag == "ghost" {
				x.trusted["ghost definition (conservative extension on a fresh key) in "+fn.String()+": "+e.text] = true
				x.assume(out.st.guard, x.evalBool(post, e.expr))
			}
		}
		for k, e := range fc.ensures {
			if e.tag == "ghost" {
				continue
			}
			if e.tag == "defines" {
				// `ensures [defines] result == ufb_f(args)`: introduces the name ufb_f for "what this function returns";
				// sound when the function is deterministic in the stated arguments. Assumed at call sites, never an obligation.
				x.trusted["definition by result: "+fn.String()+" is a deterministic function of its arguments ("+e.text+")"] = true
				continue
			}
			if strings.HasPrefix(e.tag, "assumed:") {
				// `ensures [assumed:reason] e`: a stated assumption about the data the function is given (not provable from the
				// code: e.g. "input structs have no unexported fields"). Assumed at call sites, never an obligation; listed.
				x.trusted["assumed postcondition of "+fn.String()+" ("+strings.TrimPrefix(e.tag, "assumed:")+"): "+e.text] = true
				continue
			}
			tag := fmt.Sprint(k)
			if e.tag != "" {
				tag = e.tag
			}
			if fc.splitReturns && len(fr.rets) > 1 {
				// one obligation per return statement (in generation order), each in the state of that return: smaller
				// queries than the one over the merged exit state
				for ri, r := range fr.rets {
					penv := x.contractEnv(fr, r.st, nil)
					penv.old = x.entry
					x.bindResults(penv, fn.Signature, tupleOf(r.vals, fn.Signature))
					x.oblige(r.st, "post", fmt.Sprintf("%s.ret%d", tag, ri), x.evalBool(penv, e.expr), pos, fmt.Sprintf("postcondition at return %d: %s", ri, e.text), false)
				}
				continue
			}
			g := x.evalBool(post, e.expr)
			x.oblige(out.st, "post", tag, g, pos, "postcondition: "+e.text, false)
		}
		if fc.assigns != nil && !fc.assumeFrame {
			x.frameObligations(fr, out.st, fc, pos)
		}
		if fc.assumeFrame {
			x.trusted["frame of "+fn.String()+" assumed, not checked (it calls function values whose effects the contract language cannot bound)"] = true
		}
	}
	if fc != nil {
		for _, ac := range fc.atcalls {
			if !ac.seen {
				g0 := &state{heap: map[string]string{}, guard: "true"}
				detail := fmt.Sprintf("%s#%d", ac.callee, ac.ordinal)
				if ac.cl.tag != "" {
					detail += "." + ac.cl.tag
				}
				x.oblige(g0, "callarg", detail, "false", pos, "the call this clause speaks about does not exist (any more): "+ac.cl.text, false)
			}
			ac.seen = false
		}
		for _, ai := range fc.atifs {
			if !ai.seen {
				g0 := &state{heap: map[string]string{}, guard: "true"}
				x.oblige(g0, "branch", mangle(ai.cond)+"."+ai.cl.tag, "false", pos, "the branch this clause speaks about (`"+ai.cond+"`) does not exist (any more): "+ai.cl.text, false)
			}
			ai.seen = false
		}
		for _, lc := range fc.loopCalls {
			if !lc.seen {
				g0 := &state{heap: map[string]string{}, guard: "true"}
				x.oblige(g0, "loop-calls", fmt.Sprintf("loop%d.%s.%s", lc.loop, mangle(lc.call), lc.tag), "false", pos, "the loop this clause speaks about has no back edge (any more)", false)
			}
			lc.seen = false
		}
		for _, as := range fc.atstores {
			if !as.seen {
				g0 := &state{heap: map[string]string{}, guard: "true"}
				x.oblige(g0, "storearg", as.field+"."+as.cl.tag, "false", pos, "the store this clause speaks about does not exist (any more): "+as.cl.text, false)
			}
			as.seen = false
		}
	}
	if out.noRet && fc != nil && !fc.noreturn && len(fc.ensures) > 0 {
		x.note("function never returns normally in the model; postconditions vacuous")
	}
	// vacuity canary: the entry assumptions must be satisfiable and the exit reachable
	if !out.noRet {
		o := x.oblige(out.st, "canary", "exit-reachable", "false", pos, "vacuity canary: must be REFUTED (assumptions consistent, some exit reachable)", true)
		o.canary = true
	}
	res.obls = x.obls
	res.notes = x.notes
	for k := range x.trusted {
		res.trusted = append(res.trusted, k)
	}
	sort.Strings(res.trusted)
	for k := range x.calleesByContract {
		res.byContract = append(res.byContract, k)
	}
	sort.Strings(res.byContract)
	for k := range x.inlined {
		res.inlined = append(res.inlined, k)
	}
	sort.Strings(res.inlined)
	for _, o := range res.obls {
		o.inputs = x.inputs
	}
	res.script = func(o *obligation) string { return x.script(o) }
	res.x = x
	res.reach = x.reach
	if safetyOnly {
		var keep []*obligation
		for _, o := range res.obls {
			if o.auto {
				keep = append(keep, o)
			}
		}
		res.obls = keep
	}
	return res
}

// verifyLemma: a contract block `func lemma:<name>` with only ensures clauses: facts about package-level
// tables (whose values come from constant initialisers or from the contract of their initialiser function).
func verifyLemma(p *program, key string, fc *funcContract) (res *funcResult) {
	res = &funcResult{key: key}
	sp := p.spkgs[fc.pkg]
	if sp == nil {
		res.err = "unknown package for lemma"
		return res
	}
	initFn := sp.Func("init")
	x := newVC(p, initFn, fc)
	x.nameOverride = key
	defer func() {
		if r := recover(); r != nil {
			if ce, ok := r.(cevalErr); ok {
				res.err = "contract error: " + ce.msg
				return
			}
			panic(r)
		}
	}()
	x.decls = append(x.decls, "(define-fun empty_arr () (Array Int Int) ((as const (Array Int Int)) 0))", "(define-fun rv_zero () Int 0)", "(declare-fun nextRef!0 () Int)")
	x.assume("true", app(">", "nextRef!0", fmt.Sprint(maxGlobals)))
	st := &state{heap: map[string]string{}, guard: "true", nextRef: "nextRef!0"}
	env := &cenv{x: x, vars: map[string]Val{}, st: st, old: st, pkg: sp.Pkg}
	pos := fc.file + ":" + fmt.Sprint(fc.line)
	for k, e := range fc.ensures {
		tag := fmt.Sprint(k)
		if e.tag != "" {
			tag = e.tag
		}
		x.oblige(st, "lemma", tag, x.evalBool(env, e.expr), pos, "lemma: "+e.text, false)
	}
	o := x.oblige(st, "canary", "assumptions-consistent", "false", pos, "vacuity canary: must be REFUTED (table facts consistent)", true)
	o.canary = true
	res.obls = x.obls
	res.notes = x.notes
	for k := range x.trusted {
		res.trusted = append(res.trusted, k)
	}
	sort.Strings(res.trusted)
	res.script = func(o *obligation) string { return x.script(o) }
	res.x = x
	return res
}

func tupleOf(vals []Val, sig *types.Signature) Val {
	if sig.Results().Len() == 1 && len(vals) == 1 {
		return vals[0]
	}
	return Val{Tuple: vals}
}

// frameObligations: every heap array not covered by the assigns clause is unchanged at exit
// (restricted to objects that existed at entry).
func (x *vc) frameObligations(fr *frame, out *state, fc *funcContract, pos string) {
	env := x.contractEnv(fr, x.entry, nil)
	allowed := &modSet{}
	for _, a := range fc.assigns {
		x.assignsTargets(env, a, allowed)
	}
	if allowed.all {
		return
	}
	var names []string
	for k := range x.heapSorts {
		names = append(names, k)
	}
	sort.Strings(names)
	for _, k := range names {
		cur, ok := out.heap[k]
		if !ok || cur == x.heap0[k] {
			continue
		}
		if strings.HasPrefix(k, "GVIS_") || strings.HasPrefix(k, "GCNT_") {
			continue // ghost state (map iterations, call counters): not program memory
		}
		refs := allowed.arrays[k]
		if len(refs) == 1 && refs[0] == "*" {
			continue
		}
		r := fmt.Sprintf("fr!%d", x.fresh)
		x.fresh++
		var excl []string
		for _, a := range refs {
			excl = append(excl, not(eq(r, a)))
		}
		goal := fmt.Sprintf("(forall ((%s Int)) %s)", r, implies(and(append(excl, app("<", r, "nextRef!0"), app("<", "0", r))...), eq(app("select", cur, r), app("select", x.heap0[k], r))))
		x.oblige(out, "assigns", k, goal, pos, "frame: "+k+" unchanged outside the assigns clause", false)
	}
}

func (x *vc) script(o *obligation) string {
	var b strings.Builder
	b.WriteString(prelude)
	for _, d := range x.srt.structDecls {
		b.WriteString(d)
		b.WriteByte('\n')
	}
	for _, d := range x.decls[:o.nDecl] {
		b.WriteString(d)
		b.WriteByte('\n')
	}
	for _, a := range x.asserts[:o.nAssert] {
		b.WriteString(a)
		b.WriteByte('\n')
	}
	// string-equality axioms only where the function's own terms use them (the prelude mentions the symbols too)
	own := b.String()[len(prelude):] + o.goal + o.guard
	hasKey := strings.Contains(own, "(strkey ") || strings.Contains(own, "(keystr ")
	if hasKey || strings.Contains(own, "(streq ") {
		b.WriteString(streqAxioms)
	}
	if strings.Contains(own, "(keystr ") {
		b.WriteString(strkeyAxioms)
	}
	if body := b.String() + o.goal + o.guard; strings.Contains(body, "rv_") || strings.Contains(body, "rt_implements") || strings.Contains(body, "kind_of_type") || strings.Contains(body, " RV)") || strings.Contains(body, " RV ") {
		body = b.String()
		// the reflect model's declarations must precede their uses: rebuild with them after the prelude
		rest := body[len(prelude):]
		b.Reset()
		b.WriteString(prelude)
		b.WriteString(reflectPrelude)
		b.WriteString(rest)
	}
	fmt.Fprintf(&b, "(assert %s)\n", o.guard)
	fmt.Fprintf(&b, "(assert (not %s))\n", o.goal)
	return b.String()
}
