package jsonata

// Witness for the defect found by obligation jlib.Sum:post@C10:finite-or-error (properties C10 and C15): the sum of an
// array is accumulated in a float64 and returned as it is; when it overflows, Eval returns +Inf with a nil error - a
// value that is not a JSON number and cannot be marshalled ($sum([1e308, 1e308]); EvalBytes then fails inside
// json.Marshal). The arithmetic operators report ErrNumberInf in this situation. Repaired by the commit recorded in
// /verif/known_findings.jsonl.

import (
	"encoding/json"
	"math"
	"testing"
)

func TestWitnessC10SumOverflow(t *testing.T) {
	for _, prog := range []string{`$sum([1e308, 1e308])`, `$average([1e308, 1e308])`, `$sum([-1e308, -1e308])`} {
		v, err := MustCompile(prog).Eval(nil)
		if err == nil {
			if f, ok := v.(float64); ok && (math.IsInf(f, 0) || math.IsNaN(f)) {
				t.Fatalf("WITNESS: %s = %v with a nil error", prog, v)
			}
			if _, merr := json.Marshal(v); merr != nil {
				t.Fatalf("WITNESS: %s = %v cannot be marshalled: %v", prog, v, merr)
			}
		}
	}
	v, err := MustCompile(`$sum([1, 2, 3.5])`).Eval(nil)
	if err != nil || v != 6.5 {
		t.Fatalf("ordinary sum: %v %v", v, err)
	}
}
