package main

import (
	"fmt"
	"os"
	"sort"
	"strconv"
	"strings"
	"time"
)

// cmdSweep: zero-annotation safety sweep. Every function of the selected packages that has no contract is
// verified with the automatically generated obligations only (bounds, slices, nil, division, type assertions,
// explicit panics, inferred counter invariants). Callees under contract are used by contract, others are
// inlined or havocked. Development aid: its output decides which functions get contracts or become findings.
func cmdSweep(args []string) {
	if len(args) < 1 {
		usage()
	}
	sel := args[0]
	timeout := 5
	if len(args) > 1 {
		timeout, _ = strconv.Atoi(args[1])
	}
	t0 := time.Now()
	p, err := loadProgram("/repo", verifDir())
	if err != nil {
		fmt.Fprintln(os.Stderr, "load:", err)
		os.Exit(2)
	}
	var keys []string
	for k, fn := range p.funcs {
		if !strings.Contains(k, sel) || fn.Synthetic != "" || fn.Blocks == nil {
			continue
		}
		if strings.HasSuffix(fn.Name(), "init") && fn.Signature.Recv() == nil && fn.Parent() == nil && fn.Name() == "init" {
			continue
		}
		if p.cons.funcs[k] != nil {
			continue
		}
		keys = append(keys, k)
	}
	sort.Strings(keys)
	var results []*funcResult
	for _, k := range keys {
		t1 := time.Now()
		r := verifyFunction(p, p.funcs[k], nil, true)
		if d := time.Since(t1).Seconds(); d > 2 || len(r.obls) > 300 {
			fmt.Fprintf(os.Stderr, "  slow/large: %s gen %.1fs, %d obligations\n", k, d, len(r.obls))
		}
		results = append(results, r)
	}
	work, _ := os.MkdirTemp("", "govc-sweep")
	defer os.RemoveAll(work)
	probeReach = false
	dischargeAll(results, work, timeout, defaultJobs(), false)
	nOK, nBad := 0, 0
	for _, r := range results {
		if r.err != "" {
			fmt.Printf("%-70s GENERATOR ERROR %s\n", r.key, r.err)
			continue
		}
		ok, bad := 0, 0
		for _, o := range r.obls {
			if o.canary {
				continue
			}
			if o.status == "discharged" {
				ok++
			} else {
				bad++
			}
		}
		nOK += ok
		nBad += bad
		if bad == 0 {
			continue
		}
		fmt.Printf("%-70s %3d ok %3d not\n", r.key, ok, bad)
		for _, o := range r.obls {
			if o.status != "discharged" && !o.canary {
				fmt.Printf("    %-8s %-22s %-28s %s\n", o.status, o.class, o.pos, o.desc)
			}
		}
		for _, n := range r.notes {
			if strings.Contains(n, "unsupported") || strings.Contains(n, "havoc of the whole heap") {
				fmt.Printf("    note: %s\n", n)
			}
		}
	}
	fmt.Printf("sweep %q: %d functions, %d obligations discharged, %d not; wall %.0fs\n", sel, len(results), nOK, nBad, time.Since(t0).Seconds())
}
