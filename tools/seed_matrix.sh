#!/bin/bash
# usage: seed_matrix.sh [out-file] : runs every seeded change against the check of its own property in a scratch
# worktree of /repo HEAD (+ working-tree contracts); one line per seed with the names of the violated obligations
out=${1:-/verif/seeded/RESULTS.txt}
: > $out
for d in /verif/seeded/C*-*/; do
  s=$(basename $d); p=${s%-*}
  res=$(/verif/tools/try_patch.sh $d/patch.diff $p 2>&1)
  if echo "$res" | grep -q "PATCH DOES NOT APPLY"; then echo "$s $p PATCH-DOES-NOT-APPLY" >> $out; continue; fi
  n=$(echo "$res" | grep -c "^VIOLATION")
  names=$(echo "$res" | grep "^VIOLATION" | sed 's#.*replays/[A-Z0-9]*/##; s#\.txt.*##; s#_test\.go##' | cut -c1-110 | tr '\n' ' ')
  echo "$s $p violations=$n $names" >> $out
done
