//go:build verif

package jparse

// Contracts for package jparse, checked by /verif/govc (see /verif/DESIGN.md).
// Comment-only file: with the build tag off it is not compiled, with it on it
// adds no code. Blocks are keyed by function name and loop ordinal.

//@ props C08

// ---------------------------------------------------------------------------
// lexer.go

//@ pred lexOK(l *lexer) = l != nil && l.length == len(l.input) && 0 <= l.start && l.start <= l.current && l.current <= l.length && 0 <= l.width
//@ pred errOK(e error) = e != nil && typeis(e, "*Error") && dyn(e, "*Error") != nil && 1 <= dyn(e, "*Error").Type && dyn(e, "*Error").Type <= 27

//@ func (*lexer).nextRune
//@   requires lexOK(l)
//@   ensures lexOK(l)
//@   ensures (old(l.err) != nil || old(l.current) >= l.length) ==> (result == eof && l.width == 0 && l.current == old(l.current))
//@   ensures !(old(l.err) != nil || old(l.current) >= l.length) ==> (l.width == widthAt(l.input, old(l.current)) && l.width >= 1 && l.current == old(l.current) + l.width && result == runeAt(l.input, old(l.current)) && result >= 0)
//@   assigns l.width, l.current

//@ func (*lexer).backup
//@   requires lexOK(l)
//@   requires [one-backup-per-rune] l.width <= l.current - l.start
//@   ensures lexOK(l) && l.current == old(l.current) - l.width
//@   assigns l.current

//@ func (*lexer).ignore
//@   requires lexOK(l)
//@   ensures lexOK(l) && l.start == l.current
//@   assigns l.start

//@ func (*lexer).accept
//@   inline

//@ func (*lexer).acceptAll
//@   inline
//@   loop 0 invariant lexOK(l) && l.current >= old(l.current)
//@   loop 0 invariant !b ==> l.current == old(l.current)
//@   loop 0 decreases l.length - l.current

//@ func (*lexer).newToken
//@   requires lexOK(l)
//@   ensures lexOK(l) && l.start == l.current && l.width == 0
//@   ensures result.Type == tt && result.Position == old(l.start) && same(result.Value, l.input[old(l.start):l.current])
//@   assigns l.width, l.start

//@ func (*lexer).eof
//@   requires lexOK(l)
//@   ensures result.Type == typeEOF && result.Position == l.current && len(result.Value) == 0
//@   assigns nothing

//@ func (*lexer).error
//@   requires lexOK(l) && 1 <= typ && typ <= 27
//@   ensures lexOK(l) && l.start == l.current && l.width == 0
//@   ensures result.Type == typeError && result.Position == old(l.start) && errOK(l.err) && dyn(l.err, "*Error").Type == typ
//@   assigns l.width, l.start, l.err

//@ func (*lexer).skipWhitespace
//@   requires lexOK(l)
//@   ensures lexOK(l) && l.start == l.current && l.current >= old(l.current)
//@   ensures (l.err == nil && l.current < l.length) ==> !isWS(runeAt(l.input, l.current))
//@   assigns l.width, l.current, l.start

//@ func (*lexer).scanString
//@   requires lexOK(l) && l.start == l.current && l.err == nil && quote > 0
//@   ensures lexOK(l) && l.start == l.current
//@   ensures (result.Type == typeString && l.err == nil && l.current > old(l.current)) || (result.Type == typeError && errOK(l.err))
//@   ensures 0 <= result.Position && result.Position <= l.length
//@   assigns l.width, l.current, l.start, l.err
//@   loop 0 invariant lexOK(l) && l.current >= old(l.current)
//@   loop 0 decreases l.length - l.current

//@ func (*lexer).scanEscapedName
//@   requires lexOK(l) && l.start == l.current && l.err == nil && quote > 0
//@   ensures lexOK(l) && l.start == l.current
//@   ensures (result.Type == typeNameEsc && l.err == nil && l.current > old(l.current)) || (result.Type == typeError && errOK(l.err))
//@   ensures 0 <= result.Position && result.Position <= l.length
//@   assigns l.width, l.current, l.start, l.err
//@   loop 0 invariant lexOK(l) && l.current >= old(l.current)
//@   loop 0 decreases l.length - l.current

//@ func (*lexer).scanRegex
//@   requires lexOK(l) && l.start == l.current && l.err == nil && delim > 0
//@   ensures lexOK(l) && l.start == l.current
//@   ensures (result.Type == typeRegex && l.err == nil && l.current > old(l.current)) || (result.Type == typeError && errOK(l.err))
//@   ensures 0 <= result.Position && result.Position <= l.length
//@   assigns l.width, l.current, l.start, l.err
//@   loop 0 invariant lexOK(l) && l.current >= old(l.current)
//@   loop 0 invariant old(l.current) - l.current <= depth && depth <= l.current - old(l.current)
//@   loop 0 decreases l.length - l.current

//@ func (*lexer).scanNumber
//@   requires lexOK(l) && l.start == l.current && l.err == nil && l.current < l.length
//@   requires '0' <= runeAt(l.input, l.current) && runeAt(l.input, l.current) <= '9'
//@   ensures lexOK(l) && l.start == l.current && l.err == nil
//@   ensures result.Type == typeNumber && l.current > old(l.current)
//@   ensures 0 <= result.Position && result.Position <= l.length
//@   assigns l.width, l.current, l.start

//@ pred isWS(r rune) = r == ' ' || r == '\t' || r == '\n' || r == '\r' || r == '\v'
//@ pred isSym1(r rune) = 0 <= r && r < symbol1Count && symbols1[r] > 0

//@ func (*lexer).scanName
//@   requires lexOK(l) && l.start == l.current && l.err == nil && l.current < l.length
//@   requires !isWS(runeAt(l.input, l.current)) && !isSym1(runeAt(l.input, l.current))
//@   ensures lexOK(l) && l.start == l.current && l.err == nil
//@   ensures [progress] l.current > old(l.current)
//@   ensures result.Type != typeError && result.Type != typeEOF
//@   ensures 0 <= result.Position && result.Position <= l.length
//@   assigns l.width, l.current, l.start
//@   loop 0 invariant lexOK(l) && l.current >= old(l.current)
//@   loop 0 decreases l.length - l.current

//@ func (*lexer).next
//@   requires lexOK(l)
//@   ensures lexOK(l) && l.start == l.current
//@   ensures [progress] result.Type == typeEOF || result.Type == typeError || l.current > old(l.current)
//@   ensures result.Type == typeError ==> errOK(l.err)
//@   ensures result.Type != typeError ==> l.err == old(l.err)
//@   ensures old(l.err) != nil ==> result.Type == typeEOF
//@   ensures 0 <= result.Position && result.Position <= l.length
//@   assigns l.width, l.current, l.start, l.err
//@   loop 0 invariant lexOK(l) && l.err == nil && l.current == l.start + widthAt(l.input, l.start) && l.current <= l.length
