package main

import "golang.org/x/tools/go/ssa"

// onlyIndexed: every use of the slice value v reads an element or its length (range loops, s[i], len(s)); the slice is
// never stored, passed on, re-sliced or returned
func onlyIndexed(v ssa.Value) bool {
	refs := v.Referrers()
	if refs == nil {
		return false
	}
	for _, r := range *refs {
		switch u := r.(type) {
		case *ssa.DebugRef:
		case *ssa.IndexAddr:
			if u.X != v {
				return false
			}
			// the element address must only be loaded from
			if ar := u.Referrers(); ar != nil {
				for _, a := range *ar {
					switch a2 := a.(type) {
					case *ssa.UnOp, *ssa.DebugRef:
					case *ssa.Store:
						if a2.Addr == ssa.Value(u) {
							return false // written: still private, but keep the rule simple
						}
						return false
					default:
						return false
					}
				}
			}
		case *ssa.Index:
		case *ssa.Call:
			b, ok := u.Call.Value.(*ssa.Builtin)
			if !ok || (b.Name() != "len" && b.Name() != "cap") {
				return false
			}
		default:
			return false
		}
	}
	return true
}
