package jsonata

// Witnesses for the three Compile defects repaired first (property C08; obligations (*lexer).scanName:post@progress,
// (*lexer).next / scanNumber :pre@lexer.backup, parseParams:slice): inputs on which Compile did not return or panicked.

import (
	"testing"
	"time"
)

func TestWitnessC08CompileTotal(t *testing.T) {
	for _, src := range []string{"function($x)<!>{$x}", "function($x)<~>{$x}", "!é", "[1.䑁]", "function($x)<(>{$x}", "function($x)<a<>{$x}"} {
		done := make(chan interface{}, 1)
		go func() {
			defer func() { done <- recover() }()
			Compile(src)
		}()
		select {
		case r := <-done:
			if r != nil {
				t.Fatalf("WITNESS: Compile(%q) panics: %v", src, r)
			}
		case <-time.After(3 * time.Second):
			t.Fatalf("WITNESS: Compile(%q) does not return", src)
		}
	}
}
