package jsonata

// Witness for the defect found by obligation jxpath.insertSeparatorsEvery:inv-step@loop1.0:0 (property C09, C18): the
// regular-grouping routine measures a group of `interval` digits by decoding the LAST code point of the remaining
// string `interval` times instead of stepping backwards, i.e. it assumes that all digits of a group are as wide (in
// UTF-8 bytes) as the last one. With a zero-digit whose family straddles a width boundary ("zero-digit": "z" makes
// 8 the two-byte U+0082 while 0 and 1 are one byte) the cut lands before the start of the string:
// $formatNumber(1008, "#,##z", {"zero-digit":"z"}) panics (slice bounds out of range [-1:]), and with U+07F8 as zero
// digit the separator is put in the wrong place. Repaired by the commit recorded in /verif/known_findings.jsonl.

import (
	"testing"
)

func TestWitnessC09GroupingMixedWidthDigits(t *testing.T) {
	for _, c := range []struct{ prog, want string }{
		{`$formatNumber(1008, "#,##z", {"zero-digit": "z"})`, "{,zz\u0082"},
		{`$formatNumber(1008, "#,##߸", {"zero-digit": "߸"})`, "߹,߸߸ࠀ"},
		{`$formatNumber(1234567, "#,##0")`, "1,234,567"},
	} {
		func() {
			defer func() {
				if r := recover(); r != nil {
					t.Fatalf("WITNESS: %s panics: %v", c.prog, r)
				}
			}()
			v, err := MustCompile(c.prog).Eval(nil)
			if err != nil || v != c.want {
				t.Fatalf("%s = %q, %v; want %q", c.prog, v, err, c.want)
			}
		}()
	}
}
