#!/bin/bash
# usage: verify_seed.sh <prop> <k> : confirm a sub-agent's seeded change (compiles, suite green, demo fails with / passes without) and store it under /verif/seeded/<prop>-<k>/
set -u
export GOFLAGS=-mod=mod GOPROXY=off GOSUMDB=off GOTOOLCHAIN=local
prop=$1; k=$2
src=/tmp/wt/$prop/out/$k
[ -f $src/patch.diff ] || { echo "no patch at $src"; exit 2; }
demo=$(ls $src/zz_demo_*_test.go | head -1)
pkg=$(grep -m1 '^package ' $demo | awk '{print $2}')
case $pkg in jsonata|jsonata_test) dir=. ;; jparse|jparse_test) dir=jparse ;; jlib|jlib_test) dir=jlib ;; jxpath|jxpath_test) dir=jlib/jxpath ;; jtypes) dir=jtypes ;; *) echo "unknown package $pkg"; exit 2;; esac
wt=$(mktemp -d ${TMPDIR:-/tmp}/seedchk.XXXXXX); rmdir $wt
git -C /repo worktree add --detach -q $wt HEAD || exit 2
trap 'git -C /repo worktree remove --force $wt >/dev/null 2>&1; rm -rf $wt' EXIT
tname=$(grep -m1 -o 'func TestDemo[A-Za-z0-9_]*' $demo | awk '{print $2}')
cp $demo $wt/$dir/
without=$(cd $wt/$dir && timeout 300 go test -vet=off -count=1 -run "^$tname\$" . 2>&1 | tail -3)
echo "$without" | grep -q "^ok" && r_without=pass || r_without=fail
if ! git -C $wt apply $src/patch.diff; then echo "PATCH DOES NOT APPLY to current HEAD"; exit 3; fi
rm $wt/$dir/$(basename $demo)
suite=$(cd $wt && go build ./... 2>&1 | tail -3; timeout 900 go test -vet=off -count=1 ./... 2>&1 | grep -v "no test files" | tail -8)
echo "$suite" | grep -q "FAIL\|cannot\|error" && r_suite=fail || r_suite=pass
cp $demo $wt/$dir/
with=$(cd $wt/$dir && timeout 300 go test -vet=off -count=1 -run "^$tname\$" . 2>&1 | tail -6)
echo "$with" | grep -q "^ok" && r_with=pass || r_with=fail
echo "$prop/$k: demo without change: $r_without; suite with change: $r_suite; demo with change: $r_with"
if [ $r_without = pass ] && [ $r_suite = pass ] && [ $r_with = fail ]; then
  d=/verif/seeded/$prop-$k; mkdir -p $d; cp $src/patch.diff $d/patch.diff; cp $demo $d/; cp $src/notes.txt $d/notes.txt 2>/dev/null
  python3 - "$prop" "$k" "$dir" "$tname" "$d" <<'PY'
import json,sys
prop,k,dir_,tname,d=sys.argv[1:]
notes=open(d+'/notes.txt').read() if __import__('os').path.exists(d+'/notes.txt') else ''
json.dump({"property":prop,"breaks":prop,"demo_package_dir":dir_,"demo_test":tname,"needs_to_manifest":notes[:1500],
 "confirmed":{"ran":"tools/verify_seed.sh %s %s (scratch worktree of /repo HEAD)"%(prop,k),"demo_without_change":"pass","suite_with_change":"pass (go test -vet=off -count=1 ./...)","demo_with_change":"fail"},
 "source":"independent sub-agent given only the property text and a scratch worktree"},open(d+'/meta.json','w'),indent=1)
PY
  echo "stored in $d"
else
  echo "--- without:"; echo "$without"; echo "--- suite:"; echo "$suite"; echo "--- with:"; echo "$with"
fi
