package main

import (
	"fmt"
	"go/constant"
	"go/token"
	"go/types"
	"math"
	"strings"
	"time"

	"golang.org/x/tools/go/ssa"
)

// value returns the symbolic value of an SSA value in frame fr
func (x *vc) value(fr *frame, st *state, v ssa.Value) Val {
	if val, ok := fr.vals[v]; ok {
		return val
	}
	switch c := v.(type) {
	case *ssa.Const:
		return x.constVal(c)
	case *ssa.Global:
		x.globalTable(fr, st, c)
		return Val{T: x.globalRef(c), Typ: c.Type()}
	case *ssa.Function:
		return Val{T: smtInt(int64(x.srt.typeID(types.NewNamed(types.NewTypeName(0, nil, "fn:"+c.String(), nil), types.Typ[types.Int], nil)))), Typ: c.Type(), Fn: c}
	case *ssa.Builtin:
		return Val{Typ: c.Type()}
	case *ssa.Parameter, *ssa.FreeVar:
		nv := x.freshVal("in_"+v.Name(), v.Type(), st)
		fr.vals[v] = nv
		return nv
	}
	// instruction result not yet computed (e.g. value from a block that is unreachable or a back edge)
	nv := x.freshVal("undef_"+v.Name(), v.Type(), st)
	x.note("%s: value %s used before definition (loop-carried or unreachable): havoc", fnKey(fr.fn), v.Name())
	fr.vals[v] = nv
	return nv
}

func (x *vc) strLit(s string) Val {
	name, ok := x.strlits[s]
	if !ok {
		name = x.freshName("strlit")
		x.declare(name, sStr)
		x.strlits[s] = name
		facts := []string{eq(app("slen", name), smtInt(int64(len(s)))), eq(app("soff", name), "0")}
		if len(s) <= 64 {
			for i := 0; i < len(s); i++ {
				facts = append(facts, eq(app("select", app("sarr", name), smtInt(int64(i))), smtInt(int64(s[i]))))
			}
		}
		x.assume("true", and(facts...))
	}
	cp := s
	return Val{T: name, Typ: types.Typ[types.String], Lit: &cp}
}

func f64Lit(f float64) string {
	if math.IsNaN(f) {
		return "(_ NaN 11 53)"
	}
	if math.IsInf(f, 1) {
		return "(_ +oo 11 53)"
	}
	if math.IsInf(f, -1) {
		return "(_ -oo 11 53)"
	}
	bits := math.Float64bits(f)
	return fmt.Sprintf("((_ to_fp 11 53) #x%016x)", bits)
}

func (x *vc) constVal(c *ssa.Const) Val {
	t := c.Type()
	if c.Value == nil {
		// zero value: nil pointer/slice/interface/map, or zero struct
		return Val{T: x.srt.zero(t), Typ: t}
	}
	switch c.Value.Kind() {
	case constant.Bool:
		if constant.BoolVal(c.Value) {
			return Val{T: "true", Typ: t}
		}
		return Val{T: "false", Typ: t}
	case constant.String:
		v := x.strLit(constant.StringVal(c.Value))
		v.Typ = t
		return v
	case constant.Int:
		if b, ok := t.Underlying().(*types.Basic); ok && b.Info()&types.IsFloat != 0 {
			f, _ := constant.Float64Val(c.Value)
			return Val{T: f64Lit(f), Typ: t}
		}
		return Val{T: smtBigInt(c.Value.ExactString()), Typ: t}
	case constant.Float:
		f, _ := constant.Float64Val(c.Value)
		if b, ok := t.Underlying().(*types.Basic); ok && b.Info()&types.IsInteger != 0 {
			return Val{T: smtInt(int64(f)), Typ: t}
		}
		return Val{T: f64Lit(f), Typ: t}
	}
	return x.freshVal("const", t, nil)
}

func (x *vc) globalRef(g *ssa.Global) string {
	if n, ok := x.globals[g]; ok {
		return n
	}
	id := len(x.globals) + 1
	n := "G_" + mangle(g.Pkg.Pkg.Name()+"_"+g.Name())
	x.decls = append(x.decls, fmt.Sprintf("(define-fun %s () Int %d)", n, id))
	x.globals[g] = n
	return n
}

// globalTable: if g is an immutable table with a constant initialiser, pin the content of its cell
func (x *vc) globalTable(fr *frame, st *state, g *ssa.Global) {
	if x.tablesDone == nil {
		x.tablesDone = map[*ssa.Global]bool{}
	}
	if x.tablesDone[g] {
		return
	}
	x.tablesDone[g] = true
	et := g.Type().Underlying().(*types.Pointer).Elem()
	if isStructObj(et) {
		return
	}
	gv, ok := x.globalValue(fr, st, g)
	if !ok {
		return
	}
	name, _ := x.cellArr(st, et)
	ref := x.globalRef(g)
	x.tableRefs = append(x.tableRefs, tableRef{name, ref, gv.T})
	x.assume("true", eq(app("select", x.heap0[name], ref), gv.T))
	if st.heap[name] != x.heap0[name] {
		x.assume("true", eq(app("select", st.heap[name], ref), gv.T))
	}
}

const maxGlobals = 1000

// execBlock executes the instructions of block b; returns true if control does not fall out
func (x *vc) execBlock(fr *frame, st *state, b *ssa.BasicBlock) bool {
	if !x.t0.IsZero() && time.Since(x.t0) > 40*time.Second {
		panic(genBudget{"generation time budget (40 s) exceeded"})
	}
	if len(x.decls) > 150000 {
		panic(genBudget{"verification condition too large (more than 150000 definitions)"})
	}
	for _, instr := range b.Instrs {
		if _, isPhi := instr.(*ssa.Phi); isPhi {
			continue
		}
		if st.guard == "false" {
			return true
		}
		switch in := instr.(type) {
		case *ssa.If:
			c := x.value(fr, st, in.Cond)
			if fr.top && x.topFC != nil && len(x.topFC.atifs) > 0 && c.T != "" {
				if text, ok := fr.exprText[in.Cond]; ok {
					text = baselineText(fr.fn, text) // renamed locals keep the names the clause was written with (alias.go)
					if x.atifCount == nil {
						x.atifCount = map[string]int{}
					}
					nth := x.atifCount[text]
					x.atifCount[text] = nth + 1
					for _, ai := range x.topFC.atifs {
						if ai.cond != text || (ai.ordinal >= 0 && ai.ordinal != nth) {
							continue
						}
						env := x.contractEnv(fr, st, nil)
						goal := eq(c.T, x.evalBool(env, ai.cl.expr))
						what := "the condition `" + text + "` is equivalent to: " + ai.cl.text
						if ai.when != nil {
							goal = implies(x.evalBool(env, ai.when.expr), goal)
							what += "   (when " + ai.when.text + ")"
						}
						x.oblige(st, "branch", mangle(text)+"."+ai.cl.tag, goal, x.p.pos(in.Pos()), what, false)
						ai.seen = true
					}
				}
			}
			fr.blockOut[b.Index] = st
			fr.edgeCond[[2]int{b.Index, b.Succs[0].Index}] = c.T
			fr.edgeCond[[2]int{b.Index, b.Succs[1].Index}] = not(c.T)
			x.backEdges(fr, st, b)
			return false
		case *ssa.Jump:
			fr.blockOut[b.Index] = st
			fr.edgeCond[[2]int{b.Index, b.Succs[0].Index}] = "true"
			x.backEdges(fr, st, b)
			return false
		case *ssa.Return:
			var vals []Val
			for _, r := range in.Results {
				vals = append(vals, x.value(fr, st, r))
			}
			fr.rets = append(fr.rets, retInfo{guard: st.guard, vals: vals, st: st})
			return true
		case *ssa.Panic:
			x.doPanic(fr, st, in)
			return true
		default:
			x.execInstr(fr, st, instr)
			x.markLocal(fr, st, instr)
		}
	}
	return true
}

func (x *vc) backEdges(fr *frame, st *state, b *ssa.BasicBlock) {
	for _, s := range b.Succs {
		if !isBackEdge(b, s) {
			continue
		}
		var li *loopInfo
		for _, l := range fr.loops {
			if l.header == s {
				li = l
			}
		}
		if li == nil {
			continue
		}
		est := st.clone()
		est.guard = and(st.guard, fr.edgeCond[[2]int{b.Index, s.Index}])
		// `loop N calls callee#k`: an iteration that comes back to the header has made that call
		if fr.top && x.topFC != nil {
			for _, lc := range x.topFC.loopCalls {
				if lc.loop != li.ordinal {
					continue
				}
				cg, made := x.callGuard[lc.call]
				if !made {
					cg = "false"
				}
				if lc.when != nil {
					wenv := x.contractEnv(fr, est, nil)
					cg = implies(x.evalBool(wenv, lc.when.expr), cg)
				}
				x.oblige(est, "loop-calls", fmt.Sprintf("loop%d.%s.%s", li.ordinal, mangle(lc.call), lc.tag), cg, x.p.pos(b.Instrs[len(b.Instrs)-1].Pos()), "every iteration of loop "+fmt.Sprint(li.ordinal)+" that continues has executed the call "+lc.call, false)
				lc.seen = true
			}
		}
		// bind phis to the values flowing along this back edge
		saved := map[*ssa.Phi]Val{}
		var k int
		for i, p := range s.Preds {
			if p == b {
				k = i
			}
		}
		newVals := map[*ssa.Phi]Val{}
		for _, instr := range s.Instrs {
			phi, ok := instr.(*ssa.Phi)
			if !ok {
				break
			}
			newVals[phi] = x.value(fr, est, phi.Edges[k])
		}
		for phi, v := range newVals {
			saved[phi] = fr.vals[phi]
			fr.vals[phi] = v
		}
		pos := x.p.pos(firstPos(s))
		env := x.contractEnv(fr, est, s)
		if fr.fc != nil {
			for i, inv := range fr.fc.invs[li.ordinal] {
				g := x.evalBool(env, inv.expr)
				x.oblige(est, "inv-step", fmt.Sprintf("%sloop%d.%d%s", x.framePrefix(fr), li.ordinal, i, dotTag(inv.tag)), g, pos, "loop invariant preserved: "+inv.text, false)
			}
			if d := fr.fc.decr[li.ordinal]; d != nil {
				v := x.evalInt(env, d.expr)
				x.oblige(est, "variant", fmt.Sprintf("%sloop%d", x.framePrefix(fr), li.ordinal), and(app("<", v, li.variant0), app("<=", "0", li.variant0)), pos, "loop variant decreases and is bounded: "+d.text, false)
			}
		}
		for _, a := range x.autoInvariants(fr, li) {
			g := a.holds(fr.vals[a.phi].T)
			x.oblige(est, "inv-step", fmt.Sprintf("%sloop%d.auto", x.framePrefix(fr), li.ordinal), g, pos, "inferred counter bound preserved", true)
		}
		for phi, v := range saved {
			fr.vals[phi] = v
		}
	}
}

func (x *vc) doPanic(fr *frame, st *state, in *ssa.Panic) {
	pos := x.p.pos(in.Pos())
	v := x.value(fr, st, in.X)
	declared := ""
	if x.topFC != nil {
		declared = x.topFC.panics
		if declared == "" {
			declared = x.topFC.recovers
		}
	}
	if declared == "" {
		x.oblige(st, "panic-unreachable", "", "false", pos, "explicit panic must be unreachable", true)
		return
	}
	// the panic value must have the declared dynamic type
	id := x.typeIDByName(fr, declared)
	goal := eq(app("itag", v.T), smtInt(int64(id)))
	if strings.HasPrefix(declared, "*") {
		goal = and(goal, not(eq(app("ival", v.T), "0")))
	}
	x.oblige(st, "panic-type", "", goal, pos, "panic value has dynamic type "+declared+" (and is non-nil)", true)
}

func (x *vc) typeIDByName(fr *frame, name string) int {
	t := x.lookupType(fr.fn.Pkg.Pkg, name)
	if t == nil {
		x.note("unknown type %s in panics clause", name)
		return -1
	}
	return x.srt.typeID(t)
}

func (x *vc) lookupType(pkg *types.Package, name string) types.Type {
	name = strings.TrimSpace(name)
	if name == "interface {}" || name == "interface{}" || name == "any" {
		return types.NewInterfaceType(nil, nil)
	}
	if strings.HasPrefix(name, "[]") {
		if et := x.lookupType(pkg, name[2:]); et != nil {
			return types.NewSlice(et)
		}
		return nil
	}
	ptr := false
	if strings.HasPrefix(name, "*") {
		ptr = true
		name = name[1:]
	}
	var obj types.Object
	if k := strings.LastIndex(name, "."); k >= 0 {
		pn := name[:k]
		for path, sp := range x.p.spkgs {
			if sp.Pkg.Name() == pn || path == pn {
				obj = sp.Pkg.Scope().Lookup(name[k+1:])
			}
		}
		if obj == nil {
			for _, imp := range pkg.Imports() {
				if imp.Name() == pn {
					obj = imp.Scope().Lookup(name[k+1:])
				}
			}
		}
	} else {
		obj = pkg.Scope().Lookup(name)
		if obj == nil {
			obj = types.Universe.Lookup(name)
		}
	}
	if obj == nil {
		return nil
	}
	tn, ok := obj.(*types.TypeName)
	if !ok {
		return nil
	}
	if ptr {
		return types.NewPointer(tn.Type())
	}
	return tn.Type()
}

func (x *vc) execInstr(fr *frame, st *state, instr ssa.Instruction) {
	pos := x.p.pos(instr.Pos())
	switch in := instr.(type) {
	case *ssa.DebugRef:
		if id, ok := in.Expr.(interface{ String() string }); ok {
			_ = id
		}
		// (source-level names are collected up front in execBody)
	case *ssa.Alloc:
		r := x.alloc(st, "alloc_"+in.Comment)
		et := in.Type().Underlying().(*types.Pointer).Elem()
		v := Val{T: r, Typ: in.Type()}
		// zero-initialise
		if isStructObj(et) {
			x.storeStruct(st, r, et, x.srt.zero(et))
		} else {
			name, _ := x.cellArr(st, et)
			x.storeLV(st, &lvalue{arr: name, ref: r}, x.srt.zero(et))
		}
		x.allocInvariant(st, in, pos)
		fr.vals[in] = v
	case *ssa.Store:
		addr := x.value(fr, st, in.Addr)
		v := x.value(fr, st, in.Val)
		x.nilCheck(st, addr, pos)
		if fad, ok := in.Addr.(*ssa.FieldAddr); ok && len(x.p.cons.funcFields) > 0 {
			if key, ok := x.p.cons.funcFields[fieldKey(fad.X.Type(), fad.Field)]; ok {
				goal := "false"
				if v.Fn != nil && fnKey(v.Fn) == key {
					goal = "true"
				}
				if goal != "true" {
					x.oblige(st, "funcfield", "", goal, pos, "field "+fieldKey(fad.X.Type(), fad.Field)+" must always hold function "+key, true)
				}
			}
		}
		if v.T == "" {
			v = x.freshVal("opaque", in.Val.Type(), st)
			v.Fn = nil
		}
		x.storeInvariant(fr, st, in.Addr, in.Val, v, pos)
		x.store(st, addr, v)
		x.trackFnStore(fr, st, addr, x.value(fr, st, in.Val))
	case *ssa.UnOp:
		fr.vals[in] = x.unop(fr, st, in, pos)
	case *ssa.BinOp:
		fr.vals[in] = x.binop(fr, st, in, pos)
	case *ssa.FieldAddr:
		base := x.value(fr, st, in.X)
		x.nilCheck(st, base, pos)
		pt := in.X.Type().Underlying().(*types.Pointer).Elem()
		fr.vals[in] = x.fieldAddr(st, base, pt, in.Field, in.Type())
	case *ssa.Field:
		base := x.value(fr, st, in.X)
		srt := x.srt.sortOf(in.X.Type())
		info, ok := x.srt.structInfo[srt]
		ft := in.X.Type().Underlying().(*types.Struct).Field(in.Field).Type()
		if !ok {
			fr.vals[in] = x.freshVal("field", ft, st)
			x.note("field read of opaque struct %v", in.X.Type())
			break
		}
		fr.vals[in] = Val{T: app(info.fields[in.Field], base.T), Typ: ft}
	case *ssa.IndexAddr:
		fr.vals[in] = x.indexAddr(fr, st, in, pos)
	case *ssa.Index:
		fr.vals[in] = x.index(fr, st, in, pos)
	case *ssa.Slice:
		fr.vals[in] = x.sliceOp(fr, st, in, pos)
	case *ssa.Phi:
	case *ssa.Extract:
		tup := x.value(fr, st, in.Tuple)
		if in.Index < len(tup.Tuple) {
			fr.vals[in] = tup.Tuple[in.Index]
		} else {
			fr.vals[in] = x.freshVal("extract", in.Type(), st)
		}
	case *ssa.Call:
		fr.vals[in] = x.call(fr, st, in, pos)
	case *ssa.Defer:
		x.note("%s: defer is handled by the exceptional-postcondition rule only", fnKey(fr.fn))
	case *ssa.RunDefers:
	case *ssa.Go:
		x.note("%s: go statement outside subset", fnKey(fr.fn))
	case *ssa.MakeInterface:
		ov := x.value(fr, st, in.X)
		if x.nn("payload", typeKey(in.Type())) && !strings.HasPrefix(ov.T, "alloc_") {
			if _, isPtr := in.X.Type().Underlying().(*types.Pointer); isPtr {
				x.oblige(st, "nonnil", "payload", not(eq(ov.T, "0")), pos, "invariant: a value of interface type "+typeKey(in.Type())+" never holds a nil pointer", true)
			}
		}
		fr.vals[in] = x.makeInterface(st, ov, in.X.Type(), in.Type())
	case *ssa.ChangeInterface:
		v := x.value(fr, st, in.X)
		fr.vals[in] = Val{T: v.T, Typ: in.Type()}
	case *ssa.ChangeType:
		v := x.value(fr, st, in.X)
		v.Typ = in.Type()
		fr.vals[in] = v
	case *ssa.Convert:
		fr.vals[in] = x.convert(fr, st, in, pos)
	case *ssa.TypeAssert:
		fr.vals[in] = x.typeAssert(fr, st, in, pos)
	case *ssa.MakeClosure:
		fn := in.Fn.(*ssa.Function)
		var binds []Val
		for _, b := range in.Bindings {
			binds = append(binds, x.value(fr, st, b))
		}
		fr.vals[in] = Val{T: smtInt(int64(1000000 + x.fresh)), Typ: in.Type(), Fn: fn, Bind: binds}
	case *ssa.MakeSlice:
		ln := x.value(fr, st, in.Len)
		cp := x.value(fr, st, in.Cap)
		x.check(st, "makeslice", "", and(app("<=", "0", ln.T), app("<=", ln.T, cp.T)), pos, "make([]T, len, cap): 0 <= len <= cap")
		r := x.alloc(st, "mkslice")
		et := in.Type().Underlying().(*types.Slice).Elem()
		name, srt := x.elemArr(st, et)
		zero := fmt.Sprintf("((as const (Array Int %s)) %s)", x.srt.sortOf(et), x.srt.zero(et))
		st.heap[name] = x.define(name, srt, app("store", x.heapArr(st, name, srt), r, zero))
		fr.vals[in] = Val{T: app("mkslice", r, "0", ln.T, cp.T), Typ: in.Type()}
	case *ssa.MakeMap:
		r := x.alloc(st, "mkmap")
		mt := in.Type().Underlying().(*types.Map)
		d, v, l := x.mapArrs(st, mt)
		ks := x.mapKeySort(mt)
		st.heap[d] = x.define(d, x.heapSorts[d], app("store", st.heap[d], r, fmt.Sprintf("((as const (Array %s Bool)) false)", ks)))
		st.heap[l] = x.define(l, x.heapSorts[l], app("store", st.heap[l], r, "0"))
		_ = v
		fr.vals[in] = Val{T: r, Typ: in.Type()}
	case *ssa.MapUpdate:
		m := x.value(fr, st, in.Map)
		k := x.value(fr, st, in.Key)
		v := x.value(fr, st, in.Value)
		x.check(st, "nil", "mapupdate", not(eq(m.T, "0")), pos, "assignment to entry in nil map")
		mt := in.Map.Type().Underlying().(*types.Map)
		x.hashableKey(st, mt, k, pos)
		if f := x.mapInvFormula(st, mt, v); f != "" {
			x.oblige(st, "mapinv", "", f, pos, "declared invariant of the values of "+mt.String()+" holds for the stored value", true)
		}
		d, va, l := x.mapArrs(st, mt)
		kk := x.mapKey(mt, k.T)
		had := app("select", app("select", st.heap[d], m.T), kk)
		newLen := ite(had, app("select", st.heap[l], m.T), app("+", app("select", st.heap[l], m.T), "1"))
		st.heap[l] = x.define(l, x.heapSorts[l], app("store", st.heap[l], m.T, newLen))
		st.heap[d] = x.define(d, x.heapSorts[d], app("store", st.heap[d], m.T, app("store", app("select", st.heap[d], m.T), kk, "true")))
		if v.T != "" {
			st.heap[va] = x.define(va, x.heapSorts[va], app("store", st.heap[va], m.T, app("store", app("select", st.heap[va], m.T), kk, v.T)))
		}
	case *ssa.Lookup:
		m := x.value(fr, st, in.X)
		k := x.value(fr, st, in.Index)
		mt, isMap := in.X.Type().Underlying().(*types.Map)
		if !isMap {
			fr.vals[in] = x.freshVal("lookup", in.Type(), st)
			break
		}
		x.hashableKey(st, mt, k, pos)
		d, va, _ := x.mapArrs(st, mt)
		kk := x.mapKey(mt, k.T)
		has := and(not(eq(m.T, "0")), app("select", app("select", st.heap[d], m.T), kk))
		val := ite(has, app("select", app("select", st.heap[va], m.T), kk), x.srt.zero(mt.Elem()))
		vv := Val{T: x.define("mapval", x.srt.sortOf(mt.Elem()), val), Typ: mt.Elem()}
		x.assume(st.guard, x.typeInv(vv.T, mt.Elem(), st))
		if f := x.mapInvFormula(st, mt, vv); f != "" {
			x.assume(and(st.guard, has), f) // data-structure invariant of this map type (checked at every update)
		}
		if in.CommaOk {
			fr.vals[in] = Val{Tuple: []Val{vv, {T: has, Typ: types.Typ[types.Bool]}}, Typ: in.Type()}
		} else {
			fr.vals[in] = vv
		}
	case *ssa.Range:
		xv := x.value(fr, st, in.X)
		if _, isMap := in.X.Type().Underlying().(*types.Map); isMap {
			mv := xv
			// ghost state of the iteration: the set of keys produced so far (per iterator) and the key set at the start
			mt := in.X.Type().Underlying().(*types.Map)
			d, _, _ := x.mapArrs(st, mt)
			ks := x.mapKeySort(mt)
			r := x.alloc(st, "mapiter")
			gv := x.visitedArr(st, mt)
			st.heap[gv] = x.define(gv, x.heapSorts[gv], app("store", st.heap[gv], r, fmt.Sprintf("((as const (Array %s Bool)) false)", ks)))
			dom0 := x.define("dom0", fmt.Sprintf("(Array %s Bool)", ks), ite(eq(mv.T, "0"), fmt.Sprintf("((as const (Array %s Bool)) false)", ks), app("select", st.heap[d], mv.T)))
			fr.vals[in] = Val{Typ: in.Type(), Iter: &iterInfo{isMap: true, m: &mv, cell: r, dom0: dom0}}
			break
		}
		r := x.alloc(st, "iter")
		name, _ := x.cellArr(st, types.Typ[types.Int])
		x.storeLV(st, &lvalue{arr: name, ref: r}, "0")
		if fr.top {
			// the position of a range-over-string loop is not a program variable: no callee can reach it
			x.needLocalobj()
			x.hasLocal = true
			x.assume(st.guard, app("localobj", r))
		}
		sv := xv
		fr.vals[in] = Val{Typ: in.Type(), Iter: &iterInfo{str: &sv, cell: r}}
	case *ssa.Next:
		fr.vals[in] = x.next(fr, st, in)
	default:
		x.note("%s: unsupported instruction %T: result havoc", fnKey(fr.fn), instr)
		if v, ok := instr.(ssa.Value); ok {
			fr.vals[v] = x.freshVal("unsupported", v.Type(), st)
		}
	}
}

// trackFnStore remembers statically known function values stored in fields (p.lookupNud = lookupNud)
func (x *vc) trackFnStore(fr *frame, st *state, addr Val, v Val) {}

func (x *vc) alloc(st *state, hint string) string {
	if st.nextRef == "" {
		st.nextRef = "nextRef!0"
	}
	r := x.define(hint, sInt, st.nextRef)
	st.nextRef = x.define("nextRef", sInt, app("+", st.nextRef, "1"))
	return r
}

func (x *vc) nilCheck(st *state, p Val, pos string) {
	if p.LV != nil {
		return
	}
	if strings.HasPrefix(p.T, "alloc_") || strings.HasPrefix(p.T, "G_") || strings.HasPrefix(p.T, "tmpobj") {
		return
	}
	if x.nonNil == nil {
		x.nonNil = map[string]bool{}
	}
	if x.nonNil[p.T+"|"+st.guard] || x.nonNil[p.T+"|true"] {
		return
	}
	x.nonNil[p.T+"|"+st.guard] = true
	x.check(st, "nil", "", not(eq(p.T, "0")), pos, "nil pointer dereference")
}

func (x *vc) fieldAddr(st *state, base Val, structT types.Type, field int, resT types.Type) Val {
	s := structT.Underlying().(*types.Struct)
	ft := s.Field(field).Type()
	if base.LV != nil && base.LV.arr != "" {
		// extend path
		lv := *base.LV
		lv.path = append(append([]pathElem{}, lv.path...), pathElem{field: field, sinfo: x.srt.structInfo[x.srt.sortOf(structT)]})
		lv.typ = ft
		if lv.path[len(lv.path)-1].sinfo == nil {
			x.note("field address into opaque struct %v", structT)
		}
		return Val{Typ: resT, LV: &lv}
	}
	ref := base.T
	if base.LV != nil {
		ref = base.LV.ref
	}
	if !isStructObj(structT) {
		// opaque external struct: addresses of its fields are opaque too
		x.note("field address into external struct %v", structT)
		name, _ := x.cellArr(st, ft)
		return Val{Typ: resT, LV: &lvalue{arr: name, ref: x.define("opq", sInt, app("-", "0", ref)), rsort: x.srt.sortOf(ft), rtyp: ft, typ: ft}}
	}
	name, _, _ := x.fieldArr(st, structT, field)
	return Val{Typ: resT, LV: &lvalue{arr: name, ref: ref, rsort: x.srt.sortOf(ft), rtyp: ft, typ: ft}}
}

func (x *vc) unop(fr *frame, st *state, in *ssa.UnOp, pos string) Val {
	v := x.value(fr, st, in.X)
	switch in.Op {
	case token.MUL: // load
		x.nilCheck(st, v, pos)
		if g, ok := in.X.(*ssa.Global); ok {
			if gv, ok2 := x.globalValue(fr, st, g); ok2 {
				return gv
			}
		}
		if fad, ok := in.X.(*ssa.FieldAddr); ok && len(x.p.cons.funcFields) > 0 {
			if key, ok := x.p.cons.funcFields[fieldKey(fad.X.Type(), fad.Field)]; ok {
				if f := x.p.funcs[key]; f != nil {
					// declared invariant: the field always holds this function (every store into it is checked)
					return Val{T: smtInt(int64(x.srt.typeID(types.NewNamed(types.NewTypeName(0, nil, "fn:"+f.String(), nil), types.Typ[types.Int], nil)))), Typ: in.Type(), Fn: f}
				}
			}
		}
		r := x.load(st, v)
		// name the loaded value and assume its type invariant
		if r.T != "" && r.Typ != nil {
			n := x.define("ld_"+in.Name(), x.srt.sortOf(r.Typ), r.T)
			x.assume(st.guard, x.typeInv(n, r.Typ, st))
			r.T = n
			x.loadInvariant(st, in.X, r)
		}
		return r
	case token.NOT:
		return Val{T: not(v.T), Typ: in.Type()}
	case token.SUB:
		if x.srt.sortOf(in.Type()) == sF64 {
			return Val{T: app("fp.neg", v.T), Typ: in.Type()}
		}
		res := app("-", v.T)
		x.arith(st, res, in.Type(), pos)
		return Val{T: res, Typ: in.Type()}
	case token.XOR:
		return x.freshVal("bitnot", in.Type(), st)
	case token.ARROW:
		x.note("channel receive outside subset")
		return x.freshVal("recv", in.Type(), st)
	}
	return x.freshVal("unop", in.Type(), st)
}

func (x *vc) arith(st *state, res string, t types.Type, pos string) {
	lo, hi, ok := intRange(t)
	if !ok || isUnsigned(t) {
		return
	}
	x.check(st, "arith", "", and(app("<=", lo, res), app("<=", res, hi)), pos, "signed integer arithmetic does not overflow")
}

func (x *vc) binop(fr *frame, st *state, in *ssa.BinOp, pos string) Val {
	a := x.value(fr, st, in.X)
	b := x.value(fr, st, in.Y)
	t := in.Type()
	opT := in.X.Type()
	srt := x.srt.sortOf(opT)
	boolT := types.Typ[types.Bool]
	switch in.Op {
	case token.EQL, token.NEQ:
		var e string
		switch srt {
		case sStr:
			e = x.strEq(a, b)
		case sF64:
			e = app("fp.eq", a.T, b.T)
		case sIface:
			e = x.ifaceEq(a, b)
		case sSlice:
			// comparison with nil only
			if isNilConst(in.Y) {
				e = eq(app("sl_arr", a.T), "0")
			} else if isNilConst(in.X) {
				e = eq(app("sl_arr", b.T), "0")
			} else {
				e = eq(a.T, b.T)
			}
		default:
			if a.T == "" || b.T == "" {
				// function value comparison with nil
				if a.Fn != nil && isNilConst(in.Y) {
					e = "false"
				} else {
					fv := x.freshVal("cmp", boolT, st)
					e = fv.T
				}
			} else if a.Fn != nil && isNilConst(in.Y) {
				e = "false"
			} else {
				e = eq(a.T, b.T)
			}
		}
		if in.Op == token.NEQ {
			e = not(e)
		}
		return Val{T: e, Typ: t}
	case token.LSS, token.LEQ, token.GTR, token.GEQ:
		ops := map[token.Token]string{token.LSS: "<", token.LEQ: "<=", token.GTR: ">", token.GEQ: ">="}
		switch srt {
		case sF64:
			fops := map[token.Token]string{token.LSS: "fp.lt", token.LEQ: "fp.leq", token.GTR: "fp.gt", token.GEQ: "fp.geq"}
			return Val{T: app(fops[in.Op], a.T, b.T), Typ: t}
		case sStr:
			var e string
			switch in.Op {
			case token.LSS:
				e = app("strlt", a.T, b.T)
			case token.GTR:
				e = app("strlt", b.T, a.T)
			case token.LEQ:
				e = not(app("strlt", b.T, a.T))
			case token.GEQ:
				e = not(app("strlt", a.T, b.T))
			}
			return Val{T: e, Typ: t}
		}
		return Val{T: app(ops[in.Op], a.T, b.T), Typ: t}
	case token.LAND, token.LOR:
		if in.Op == token.LAND {
			return Val{T: and(a.T, b.T), Typ: t}
		}
		return Val{T: or(a.T, b.T), Typ: t}
	}
	if srt == sStr && in.Op == token.ADD {
		return x.strConcat(st, a, b, t)
	}
	if srt == sF64 {
		fops := map[token.Token]string{token.ADD: "fp.add RNE", token.SUB: "fp.sub RNE", token.MUL: "fp.mul RNE", token.QUO: "fp.div RNE"}
		if op, ok := fops[in.Op]; ok {
			return Val{T: x.define("f", sF64, app(x.fpOp(op), a.T, b.T)), Typ: t}
		}
		return x.freshVal("fop", t, st)
	}
	if srt == sBool {
		switch in.Op {
		case token.AND:
			return Val{T: and(a.T, b.T), Typ: t}
		case token.OR:
			return Val{T: or(a.T, b.T), Typ: t}
		}
	}
	// integers
	var res string
	switch in.Op {
	case token.ADD:
		res = app("+", a.T, b.T)
	case token.SUB:
		res = app("-", a.T, b.T)
	case token.MUL:
		res = app("*", a.T, b.T)
	case token.QUO:
		x.check(st, "div0", "", not(eq(b.T, "0")), pos, "integer division by zero")
		res = app("go_div", a.T, b.T)
	case token.REM:
		x.check(st, "div0", "", not(eq(b.T, "0")), pos, "integer division by zero")
		res = app("go_mod", a.T, b.T)
	case token.SHL:
		if c, ok := in.Y.(*ssa.Const); ok && c.Value != nil {
			n, _ := constant.Int64Val(constant.ToInt(c.Value))
			if n >= 0 && n < 63 {
				res = app("*", a.T, fmt.Sprint(int64(1)<<uint(n)))
				break
			}
		}
		return x.freshVal("shl", t, st)
	case token.SHR:
		if c, ok := in.Y.(*ssa.Const); ok && c.Value != nil {
			n, _ := constant.Int64Val(constant.ToInt(c.Value))
			if n >= 0 && n < 63 {
				res = app("div", a.T, fmt.Sprint(int64(1)<<uint(n)))
				return Val{T: x.define("shr", sInt, res), Typ: t}
			}
		}
		return x.freshVal("shr", t, st)
	case token.AND:
		// x & (2^k - 1)
		if c, ok := in.Y.(*ssa.Const); ok && c.Value != nil {
			n, exact := constant.Int64Val(constant.ToInt(c.Value))
			if exact && n > 0 && (n&(n+1)) == 0 {
				return Val{T: x.define("and", sInt, app("mod", a.T, fmt.Sprint(n+1))), Typ: t}
			}
		}
		v := x.freshVal("bitand", t, st)
		// 0 <= a&b <= min(a,b) for non-negative operands
		x.assume(st.guard, implies(and(app(">=", a.T, "0"), app(">=", b.T, "0")), and(app("<=", "0", v.T), app("<=", v.T, a.T), app("<=", v.T, b.T))))
		return v
	case token.OR, token.XOR, token.AND_NOT:
		v := x.freshVal("bitop", t, st)
		if in.Op == token.OR {
			x.assume(st.guard, implies(and(app(">=", a.T, "0"), app(">=", b.T, "0")), and(app("<=", a.T, v.T), app("<=", b.T, v.T), app("<=", v.T, app("+", a.T, b.T)))))
		}
		return v
	default:
		return x.freshVal("binop", t, st)
	}
	if isUnsigned(t) {
		res = app("mod", res, pow2(intBits(t)))
		return Val{T: x.define(in.Name(), sInt, res), Typ: t}
	}
	var n string
	if x.topFC != nil && x.topFC.opaqueArith {
		// a named constant tied to its defining term by an equation (not a macro the solver unfolds): sums used as
		// indices then keep the shape (+ offset index) that the triggers of quantified contracts match against
		n = x.freshName(in.Name())
		x.declare(n, sInt)
		x.assume("true", eq(n, res))
	} else {
		n = x.define(in.Name(), sInt, res)
	}
	x.arith(st, n, t, pos)
	return Val{T: n, Typ: t}
}

func isNilConst(v ssa.Value) bool {
	c, ok := v.(*ssa.Const)
	return ok && c.Value == nil
}

func (x *vc) strEq(a, b Val) string {
	lit, other := a, b
	if lit.Lit == nil {
		lit, other = b, a
	}
	if lit.Lit != nil && len(*lit.Lit) <= 64 {
		s := *lit.Lit
		cs := []string{eq(app("slen", other.T), smtInt(int64(len(s))))}
		for i := 0; i < len(s); i++ {
			cs = append(cs, eq(app("sbyte", other.T, smtInt(int64(i))), smtInt(int64(s[i]))))
		}
		return and(cs...)
	}
	if a.T == b.T {
		return "true"
	}
	return app("streq", a.T, b.T)
}

func (x *vc) ifaceEq(a, b Val) string {
	return eq(a.T, b.T)
}

func (x *vc) strConcat(st *state, a, b Val, t types.Type) Val {
	v := x.freshVal("concat", t, st)
	x.assume(st.guard, eq(app("slen", v.T), app("+", app("slen", a.T), app("slen", b.T))))
	// pointwise content (quantified, with patterns): only where a contract asks for it
	i := "ci!" + fmt.Sprint(x.fresh)
	if x.topFC != nil && x.topFC.preciseAppend {
		x.assume(st.guard, fmt.Sprintf("(forall ((%s Int)) (! (=> (and (<= 0 %s) (< %s (slen %s))) (= (sbyte %s %s) (ite (< %s (slen %s)) (sbyte %s %s) (sbyte %s (- %s (slen %s)))))) :pattern ((sbyte %s %s))))",
			i, i, i, v.T, v.T, i, i, a.T, a.T, i, b.T, i, a.T, v.T, i))
	}
	if a.Lit != nil && b.Lit != nil {
		s := *a.Lit + *b.Lit
		v.Lit = &s
	}
	return v
}

func (x *vc) indexAddr(fr *frame, st *state, in *ssa.IndexAddr, pos string) Val {
	base := x.value(fr, st, in.X)
	idx := x.value(fr, st, in.Index)
	switch xt := in.X.Type().Underlying().(type) {
	case *types.Slice:
		x.check(st, "bounds", "", and(app("<=", "0", idx.T), app("<", idx.T, app("sl_len", base.T))), pos, "slice index in range")
		name, _ := x.elemArr(st, xt.Elem())
		et := xt.Elem()
		return Val{Typ: in.Type(), LV: &lvalue{arr: name, ref: app("sl_arr", base.T), idx: x.define("ix", sInt, app("+", app("sl_off", base.T), idx.T)), rsort: x.srt.sortOf(et), rtyp: et, typ: et}}
	case *types.Pointer:
		at := xt.Elem().Underlying().(*types.Array)
		x.check(st, "bounds", "", and(app("<=", "0", idx.T), app("<", idx.T, smtInt(at.Len()))), pos, "array index in range")
		var lv lvalue
		if base.LV != nil {
			lv = *base.LV
		} else {
			x.nilCheck(st, base, pos)
			name, _ := x.cellArr(st, xt.Elem())
			lv = lvalue{arr: name, ref: base.T, rsort: x.srt.sortOf(xt.Elem()), rtyp: xt.Elem()}
		}
		lv.path = append(append([]pathElem{}, lv.path...), pathElem{index: idx.T})
		lv.typ = at.Elem()
		return Val{Typ: in.Type(), LV: &lv}
	}
	x.note("unsupported IndexAddr on %v", in.X.Type())
	return x.freshVal("ixaddr", in.Type(), st)
}

func (x *vc) byteRange(st *state, b string) {
	x.assume(st.guard, and(app("<=", "0", b), app("<=", b, "255")))
}

func (x *vc) index(fr *frame, st *state, in *ssa.Index, pos string) Val {
	base := x.value(fr, st, in.X)
	idx := x.value(fr, st, in.Index)
	switch xt := in.X.Type().Underlying().(type) {
	case *types.Basic: // string
		x.check(st, "bounds", "", and(app("<=", "0", idx.T), app("<", idx.T, app("slen", base.T))), pos, "string index in range")
		b := x.define("byte", sInt, app("sbyte", base.T, idx.T))
		x.byteRange(st, b)
		return Val{T: b, Typ: in.Type()}
	case *types.Array:
		x.check(st, "bounds", "", and(app("<=", "0", idx.T), app("<", idx.T, smtInt(xt.Len()))), pos, "array index in range")
		v := Val{T: x.define("aelem", x.srt.sortOf(xt.Elem()), app("select", base.T, idx.T)), Typ: in.Type()}
		x.assume(st.guard, x.typeInv(v.T, xt.Elem(), st))
		return v
	}
	return x.freshVal("index", in.Type(), st)
}

func (x *vc) sliceOp(fr *frame, st *state, in *ssa.Slice, pos string) Val {
	base := x.value(fr, st, in.X)
	var lo, hi, mx string
	if in.Low != nil {
		lo = x.value(fr, st, in.Low).T
	} else {
		lo = "0"
	}
	switch xt := in.X.Type().Underlying().(type) {
	case *types.Basic: // string
		if in.High != nil {
			hi = x.value(fr, st, in.High).T
		} else {
			hi = app("slen", base.T)
		}
		x.check(st, "slice", "", and(app("<=", "0", lo), app("<=", lo, hi), app("<=", hi, app("slen", base.T))), pos, "string slice bounds in range")
		return Val{T: x.define("substr", sStr, app("substr", base.T, lo, hi)), Typ: in.Type()}
	case *types.Slice:
		if in.High != nil {
			hi = x.value(fr, st, in.High).T
		} else {
			hi = app("sl_len", base.T)
		}
		if in.Max != nil {
			mx = x.value(fr, st, in.Max).T
		} else {
			mx = app("sl_cap", base.T)
		}
		x.check(st, "slice", "", and(app("<=", "0", lo), app("<=", lo, hi), app("<=", hi, mx), app("<=", mx, app("sl_cap", base.T))), pos, "slice bounds in range")
		t := app("mkslice", app("sl_arr", base.T), app("+", app("sl_off", base.T), lo), app("-", hi, lo), app("-", mx, lo))
		return Val{T: x.define("subslice", sSlice, t), Typ: in.Type()}
	case *types.Pointer: // pointer to array -> slice
		at := xt.Elem().Underlying().(*types.Array)
		if in.High != nil {
			hi = x.value(fr, st, in.High).T
		} else {
			hi = smtInt(at.Len())
		}
		x.check(st, "slice", "", and(app("<=", "0", lo), app("<=", lo, hi), app("<=", hi, smtInt(at.Len()))), pos, "array slice bounds in range")
		// copy the array into a fresh backing store (aliasing with the array is not modelled)
		x.note("slice of array: aliasing between array and slice not modelled")
		r := x.alloc(st, "arrslice")
		name, srt := x.elemArr(st, at.Elem())
		var content string
		if base.LV != nil {
			content = x.loadLV(st, base.LV)
		} else {
			cn, cs := x.cellArr(st, xt.Elem())
			content = app("select", x.heapArr(st, cn, cs), base.T)
		}
		st.heap[name] = x.define(name, srt, app("store", x.heapArr(st, name, srt), r, content))
		return Val{T: x.define("subslice", sSlice, app("mkslice", r, lo, app("-", hi, lo), app("-", smtInt(at.Len()), lo))), Typ: in.Type()}
	}
	return x.freshVal("slice", in.Type(), st)
}

func (x *vc) makeInterface(st *state, v Val, from types.Type, to types.Type) Val {
	id := x.srt.typeID(from)
	x.kindFact(from)
	srt := x.srt.sortOf(from)
	var payload string
	switch from.Underlying().(type) {
	case *types.Pointer, *types.Map, *types.Chan:
		payload = v.T
	default:
		if v.T == "" {
			payload = smtInt(int64(x.fresh + 7000000))
			if v.Fn != nil {
				out := Val{T: app("mkiface", smtInt(int64(id)), payload), Typ: to, Fn: v.Fn, Bind: v.Bind}
				return out
			}
		} else {
			box, unbox, decl := x.srt.boxFns(srt)
			x.decls = append(x.decls, decl...)
			payload = x.define("box", sInt, app(box, v.T))
			x.assume("true", eq(app(unbox, payload), v.T))
		}
	}
	return Val{T: x.define("iface", sIface, app("mkiface", smtInt(int64(id)), payload)), Typ: to}
}

func (x *vc) unbox(v Val, t types.Type) string {
	switch t.Underlying().(type) {
	case *types.Pointer, *types.Map, *types.Chan:
		return app("ival", v.T)
	}
	_, unbox, decl := x.srt.boxFns(x.srt.sortOf(t))
	x.decls = append(x.decls, decl...)
	return app(unbox, app("ival", v.T))
}

func (x *vc) typeAssert(fr *frame, st *state, in *ssa.TypeAssert, pos string) Val {
	v := x.value(fr, st, in.X)
	at := in.AssertedType
	var ok string
	var res Val
	if _, isIface := at.Underlying().(*types.Interface); isIface {
		// assertion to an interface type: holds iff dynamic type implements it
		impl := x.implementsPred(at)
		ok = and(not(eq(app("itag", v.T), "0")), app(impl, app("itag", v.T)))
		if types.IsInterface(in.X.Type()) && types.AssignableTo(in.X.Type(), at) {
			ok = not(eq(app("itag", v.T), "0"))
		}
		res = Val{T: v.T, Typ: at}
	} else {
		id := x.srt.typeID(at)
		ok = eq(app("itag", v.T), smtInt(int64(id)))
		res = Val{T: x.define("unboxed", x.srt.sortOf(at), x.unbox(v, at)), Typ: at}
		x.assume(and(st.guard, ok), x.typeInv(res.T, at, st))
	}
	if in.CommaOk {
		okv := Val{T: x.define("ok", sBool, ok), Typ: types.Typ[types.Bool]}
		zero := x.srt.zero(at)
		r := Val{T: x.define("ta", x.srt.sortOf(at), ite(okv.T, res.T, zero)), Typ: at}
		return Val{Tuple: []Val{r, okv}, Typ: in.Type()}
	}
	x.check(st, "assert-type", "", ok, pos, fmt.Sprintf("type assertion to %s succeeds", types.TypeString(at, nil)))
	return res
}

func (x *vc) implementsPred(iface types.Type) string {
	name := "implements_" + shortTypeName(iface)
	for _, d := range x.decls {
		if strings.HasPrefix(d, "(define-fun "+name+" ") {
			return name
		}
	}
	// the same relation as reflect.Type.Implements: rt_implements(type tag, identifier of the interface type)
	x.decls = append(x.decls, fmt.Sprintf("(define-fun %s ((t Int)) Bool (rt_implements t %d))", name, x.srt.typeID(iface)))
	if it, ok := iface.Underlying().(*types.Interface); ok {
		x.implPreds = append(x.implPreds, implPred{name: name, iface: it})
	}
	return name
}

// implPred: an "implements interface I" predicate over type tags; implFacts states it for every concrete type whose
// tag is known (by the type checker's method sets), so that e.g. a string is known not to be a Callable
type implPred struct {
	name  string
	iface *types.Interface
	done  int // type identifiers below this one have been stated
}

func (x *vc) implFacts() {
	for i := range x.implPreds {
		p := &x.implPreds[i]
		for idx := p.done; idx < len(x.srt.typeByID); idx++ {
			t, id := x.srt.typeByID[idx], idx+1 // identifiers start at 1
			if t == nil || types.IsInterface(t) {
				continue
			}
			if n, ok := t.(*types.Named); ok && n.Obj() != nil && strings.HasPrefix(n.Obj().Name(), "fn:") {
				continue // function identities, not types
			}
			fact := app(p.name, smtInt(int64(id)))
			if !types.Implements(t, p.iface) {
				fact = not(fact)
			}
			x.asserts = append(x.asserts, "(assert "+fact+")")
		}
		p.done = len(x.srt.typeByID)
	}
}

func (x *vc) convert(fr *frame, st *state, in *ssa.Convert, pos string) Val {
	v := x.value(fr, st, in.X)
	from, to := in.X.Type(), in.Type()
	fs, ts := x.srt.sortOf(from), x.srt.sortOf(to)
	switch {
	case fs == sInt && ts == sInt:
		lo, hi, ok := intRange(to)
		flo, fhi, fok := intRange(from)
		if ok && fok {
			if rangeWithin(flo, fhi, lo, hi) {
				return Val{T: v.T, Typ: to}
			}
			// wrapping conversion
			bits := intBits(to)
			var res string
			if isUnsigned(to) {
				res = app("mod", v.T, pow2(bits))
			} else {
				res = app("-", app("mod", app("+", v.T, pow2(bits-1)), pow2(bits)), pow2(bits-1))
			}
			return Val{T: x.define("conv", sInt, res), Typ: to}
		}
		return Val{T: v.T, Typ: to}
	case fs == sInt && ts == sF64:
		return Val{T: x.define("i2f", sF64, app("(_ to_fp 11 53) RNE", app("to_real", v.T))), Typ: to}
	case fs == sF64 && ts == sInt:
		// float -> int: truncation toward zero when in range; otherwise implementation-defined
		r := x.freshVal("f2i", to, st)
		tr := app("fp.roundToIntegral RTZ", v.T)
		lo, hi, _ := intRange(to)
		if lo == "(- 9223372036854775808)" {
			// the conversion is a function of its operand: f2i names it (contracts: ifloor(x) = f2i(floor(x)))
			x.needDecl("(declare-fun f2i (F64) Int)")
			x.assume("true", eq(r.T, app("f2i", v.T)))
		}
		inRange := and(not(app("fp.isNaN", v.T)), not(app("fp.isInfinite", v.T)), app("<=", app("to_real", lo), app("fp.to_real", tr)), app("<=", app("fp.to_real", tr), app("to_real", hi)))
		x.assume(st.guard, implies(inRange, eq(app("to_real", r.T), app("fp.to_real", tr))))
		if lo == "(- 9223372036854775808)" {
			// out of range the Go spec leaves the result to the implementation; the two 64-bit targets this code runs on
			// give the "integer indefinite" value MinInt64 (amd64) or saturate (arm64: MaxInt64 / MinInt64, 0 for NaN)
			x.trusted["float64 -> int64 conversion out of range: amd64 (MinInt64) or arm64 (saturating, NaN -> 0) result assumed"] = true
			x.assume(st.guard, implies(not(inRange), or(eq(r.T, lo), eq(r.T, hi), and(app("fp.isNaN", v.T), eq(r.T, "0")))))
		}
		return r
	case fs == sF64 && ts == sF64:
		return Val{T: v.T, Typ: to}
	case fs == sStr && ts == sStr:
		return Val{T: v.T, Typ: to, Lit: v.Lit}
	case fs == sInt && ts == sStr:
		// string(rune)
		r := x.freshVal("runestr", to, st)
		x.assume(st.guard, and(app("<=", "1", app("slen", r.T)), app("<=", app("slen", r.T), "4"),
			implies(and(app("<=", "0", v.T), app("<", v.T, "128")), and(eq(app("slen", r.T), "1"), eq(app("sbyte", r.T, "0"), v.T))),
			// anything else is encoded in at least two bytes (or as U+FFFD: three), the first of them not ASCII
			implies(not(and(app("<=", "0", v.T), app("<", v.T, "128"))), and(app(">=", app("slen", r.T), "2"), app(">=", app("sbyte", r.T, "0"), "128")))))
		return r
	case fs == sSlice && ts == sStr:
		r := x.freshVal("bytes2str", to, st)
		if sl, ok := from.Underlying().(*types.Slice); ok {
			if b, ok2 := sl.Elem().Underlying().(*types.Basic); ok2 && b.Kind() == types.Uint8 {
				x.assume(st.guard, eq(app("slen", r.T), app("sl_len", v.T)))
			} else if ok2 && b.Kind() == types.Int32 {
				// string([]rune): every rune is encoded in 1..4 bytes (invalid ones as U+FFFD, 3 bytes)
				x.assume(st.guard, and(app("<=", app("sl_len", v.T), app("slen", r.T)), app("<=", app("slen", r.T), app("*", "4", app("sl_len", v.T)))))
			}
		}
		return r
	case fs == sStr && ts == sSlice:
		ref := x.alloc(st, "str2slicearr") // before the value is created: its type invariant speaks of objects allocated so far
		r := x.freshVal("str2slice", to, st)
		if sl, ok := to.Underlying().(*types.Slice); ok {
			if b, ok2 := sl.Elem().Underlying().(*types.Basic); ok2 && b.Kind() == types.Uint8 {
				x.assume(st.guard, eq(app("sl_len", r.T), app("slen", v.T)))
				// []byte("literal"): the bytes themselves (short literals only)
				if v.Lit != nil && len(*v.Lit) <= 32 {
					name, srt := x.elemArr(st, sl.Elem())
					cur := x.heapArr(st, name, srt)
					for i := 0; i < len(*v.Lit); i++ {
						x.assume(st.guard, eq(app("select", app("select", cur, app("sl_arr", r.T)), smtInt(int64(i))), smtInt(int64((*v.Lit)[i]))))
					}
				}
			} else {
				x.assume(st.guard, and(app("<=", app("sl_len", r.T), app("slen", v.T)), implies(app(">", app("slen", v.T), "0"), app(">", app("sl_len", r.T), "0"))))
			}
		}
		// fresh backing array (a new object: distinct from everything allocated before)
		x.assume("true", and(eq(app("sl_arr", r.T), ref), eq(app("sl_off", r.T), "0")))
		return r
	}
	if v.T != "" && fs == ts {
		return Val{T: v.T, Typ: to}
	}
	return x.freshVal("convert", to, st)
}

func rangeWithin(flo, fhi, lo, hi string) bool {
	// compare decimal strings via big parsing
	p := func(s string) (neg bool, digits string) {
		s = strings.TrimSpace(s)
		if strings.HasPrefix(s, "(- ") {
			return true, strings.TrimSuffix(s[3:], ")")
		}
		return false, s
	}
	le := func(a, b string) bool { // a <= b
		an, ad := p(a)
		bn, bd := p(b)
		cmp := func(x, y string) int {
			if len(x) != len(y) {
				if len(x) < len(y) {
					return -1
				}
				return 1
			}
			return strings.Compare(x, y)
		}
		switch {
		case an && !bn:
			return true
		case !an && bn:
			return ad == "0" && bd == "0"
		case an && bn:
			return cmp(ad, bd) >= 0
		}
		return cmp(ad, bd) <= 0
	}
	return le(lo, flo) && le(fhi, hi)
}

// Maps with string keys are indexed by the key's content, not by the string header: strkey maps a string to an
// identifier of its content (two strings have the same identifier exactly when they are equal, streq).
func (x *vc) mapKeySort(mt *types.Map) string {
	if x.srt.sortOf(mt.Key()) == sStr {
		return sInt
	}
	return x.srt.sortOf(mt.Key())
}

func (x *vc) mapKey(mt *types.Map, k string) string {
	if x.srt.sortOf(mt.Key()) == sStr {
		// the key of a quantifier over the members of a string-keyed map is keystr(id): its identifier is id
		if strings.HasPrefix(k, "(keystr ") && strings.HasSuffix(k, ")") && !strings.ContainsAny(k[8:len(k)-1], " ()") {
			return k[8 : len(k)-1]
		}
		return app("strkey", k)
	}
	return k
}

// visitedArr: ghost heap array holding, per map iterator, the set of keys the iteration has produced so far
func (x *vc) visitedArr(st *state, mt *types.Map) string {
	ks := x.mapKeySort(mt)
	name := "GVIS_" + mangle(ks)
	x.heapArr(st, name, fmt.Sprintf("(Array Int (Array %s Bool))", ks))
	return name
}

func (x *vc) mapArrs(st *state, mt *types.Map) (dom, val, ln string) {
	ks, vs := x.mapKeySort(mt), x.srt.sortOf(mt.Elem())
	suffix := mangle(ks) + "_" + mangle(vs)
	if x.srt.sortOf(mt.Key()) == sStr {
		suffix = "StrK_" + mangle(vs)
	}
	dom, val, ln = "MD_"+suffix, "MV_"+suffix, "ML"
	x.heapArr(st, dom, fmt.Sprintf("(Array Int (Array %s Bool))", ks))
	x.heapArr(st, val, fmt.Sprintf("(Array Int (Array %s %s))", ks, vs))
	x.heapArr(st, ln, "(Array Int Int)")
	return
}

func (x *vc) next(fr *frame, st *state, in *ssa.Next) Val {
	it := x.value(fr, st, in.Iter)
	tt := in.Type().(*types.Tuple)
	boolT := types.Typ[types.Bool]
	if it.Iter == nil {
		return Val{Tuple: []Val{x.freshVal("ok", boolT, st), x.freshVal("k", tt.At(1).Type(), st), x.freshVal("v", tt.At(2).Type(), st)}, Typ: in.Type()}
	}
	if it.Iter.isMap {
		ok := x.freshVal("ok", boolT, st)
		mt := it.Iter.m.Typ.Underlying().(*types.Map)
		k := x.freshVal("k", mt.Key(), st)
		d, va, _ := x.mapArrs(st, mt)
		kk := x.mapKey(mt, k.T)
		x.assume(and(st.guard, ok.T), and(not(eq(it.Iter.m.T, "0")), app("select", app("select", st.heap[d], it.Iter.m.T), kk))) // a nil map has no entries
		if it.Iter.cell != "" {
			// language specification: an entry present from the start of the iteration and not removed is produced exactly
			// once; no entry is produced twice. visited: the keys produced so far.
			gv := x.visitedArr(st, mt)
			ks := x.mapKeySort(mt)
			vis := app("select", st.heap[gv], it.Iter.cell)
			x.assume(and(st.guard, ok.T), not(app("select", vis, kk)))
			x.fresh++
			q := fmt.Sprintf("qk!%d", x.fresh)
			x.assume(and(st.guard, not(ok.T)), fmt.Sprintf("(forall ((%s %s)) (! (=> (and (select %s %s) (select (select %s %s) %s)) (select %s %s)) :pattern ((select %s %s)) :pattern ((select (select %s %s) %s))))",
				q, ks, it.Iter.dom0, q, st.heap[d], it.Iter.m.T, q, vis, q, vis, q, st.heap[d], it.Iter.m.T, q))
			st.heap[gv] = x.define(gv, x.heapSorts[gv], ite(ok.T, app("store", st.heap[gv], it.Iter.cell, app("store", vis, kk, "true")), st.heap[gv]))
		}
		v := Val{T: x.define("mv", x.srt.sortOf(mt.Elem()), app("select", app("select", st.heap[va], it.Iter.m.T), kk)), Typ: mt.Elem()}
		x.assume(st.guard, x.typeInv(v.T, mt.Elem(), st))
		if f := x.mapInvFormula(st, mt, v); f != "" {
			x.assume(and(st.guard, ok.T), f)
		}
		return Val{Tuple: []Val{ok, k, v}, Typ: in.Type()}
	}
	s := it.Iter.str
	name, _ := x.cellArr(st, types.Typ[types.Int])
	lv := &lvalue{arr: name, ref: it.Iter.cell}
	pos := x.define("pos", sInt, x.loadLV(st, lv))
	// the iterator position is always a byte offset inside the string (it starts at 0 and only Next advances it,
	// by the width of the rune decoded there)
	x.assume(st.guard, and(app("<=", "0", pos), app("<=", pos, app("slen", s.T))))
	ok := x.define("ok", sBool, app("<", pos, app("slen", s.T)))
	for k := 0; k < 4; k++ {
		x.byteRange(st, app("sbyte", s.T, app("+", pos, smtInt(int64(k)))))
	}
	r := x.define("rune", sInt, app("str_rune", s.T, pos))
	w := x.define("w", sInt, app("str_width", s.T, pos))
	x.storeLV(st, lv, ite(ok, app("+", pos, w), pos))
	return Val{Tuple: []Val{{T: ok, Typ: boolT}, {T: pos, Typ: types.Typ[types.Int]}, {T: r, Typ: types.Typ[types.Rune]}}, Typ: in.Type()}
}
