package main

import (
	"regexp"
)

// ---------------------------------------------------------------------------
// Ghost call counters: calls("callee#k") in a contract of function f is the number of times the k-th call site (in
// generation order) of callee in f has been executed so far in this activation. The counter is ghost state: 0 at
// entry, incremented where the call is generated, unknown at a loop head (the invariant says what it is), untouched
// by callees. It is what "f is called exactly once per member" needs: an invariant  calls(site) == i  and a
// postcondition  calls(site) == number of members.

var reCalls = regexp.MustCompile(`calls\("([^"]+)"\)`)

// countedSites: the call sites whose counters the contract of the function under verification mentions
func countedSites(fc *funcContract) map[string]bool {
	out := map[string]bool{}
	if fc == nil {
		return out
	}
	scan := func(text string) {
		for _, m := range reCalls.FindAllStringSubmatch(text, -1) {
			out[m[1]] = true
		}
	}
	for _, c := range fc.requires {
		scan(c.text)
	}
	for _, c := range fc.ensures {
		scan(c.text)
	}
	for _, cs := range fc.invs {
		for _, c := range cs {
			scan(c.text)
		}
	}
	return out
}

func counterName(site string) string { return "GCNT_" + mangle(site) }

// counter: the current value of the ghost counter of site in state st (0 in the entry state)
func (x *vc) counter(st *state, site string) string {
	name := counterName(site)
	if _, known := x.heapSorts[name]; !known {
		x.heapArr(st, name, sInt)
		x.assume("true", eq(x.heap0[name], "0"))
	}
	return x.heapArr(st, name, sInt)
}

// countCall: the call site `site` is being executed in state st
func (x *vc) countCall(st *state, site string) {
	if x.counted == nil {
		x.counted = countedSites(x.topFC)
	}
	if !x.counted[site] {
		return
	}
	cur := x.counter(st, site)
	name := counterName(site)
	st.heap[name] = x.define(name, sInt, app("+", cur, "1"))
}
