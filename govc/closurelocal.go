package main

import "golang.org/x/tools/go/ssa"

// closureKeepsBindingsLocal: the closure value is used only as the callee of direct calls in the function that makes
// it, and its body uses each captured variable (held by address) only to load from it or to store into it. Then no
// other function ever sees the addresses of the captured variables: a call made by the enclosing function or by the
// closure cannot write them (the callee has no way to reach them).
func closureKeepsBindingsLocal(mc *ssa.MakeClosure) bool {
	refs := mc.Referrers()
	if refs == nil {
		return false
	}
	for _, r := range *refs {
		switch u := r.(type) {
		case *ssa.DebugRef:
		case ssa.CallInstruction:
			if u.Common().Value != ssa.Value(mc) {
				return false // passed as an argument
			}
			for _, a := range u.Common().Args {
				if a == ssa.Value(mc) {
					return false
				}
			}
			if _, isGo := u.(*ssa.Go); isGo {
				return false
			}
		default:
			return false
		}
	}
	fn, ok := mc.Fn.(*ssa.Function)
	if !ok {
		return false
	}
	for _, fv := range fn.FreeVars {
		frefs := fv.Referrers()
		if frefs == nil {
			continue
		}
		for _, r := range *frefs {
			switch u := r.(type) {
			case *ssa.DebugRef:
			case *ssa.UnOp:
				// *fv : a load
			case *ssa.Store:
				if u.Addr != ssa.Value(fv) {
					return false // the address itself is stored somewhere
				}
			default:
				return false
			}
		}
	}
	return true
}
