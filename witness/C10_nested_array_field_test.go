package jsonata

// Witness for the defect found by obligation evalNameArray:pre@sequence.Append.C10:items-are-values-not-sequences:0
// (properties C10, C01, C09): selecting a field over arrays nested in arrays collects, for every inner array, the
// evaluator's result-sequence *object* as an item of the outer sequence. With three levels - a.b on
// {"a":[[[{"b":1}]]]} - the inner *jsonata.sequence escapes as the result of Eval (it marshals as {}), and a.b[0]
// panics with an interface conversion inside asSequence. Repaired by the commit recorded in
// /verif/known_findings.jsonl (inner results are spliced into the outer sequence).

import (
	"encoding/json"
	"testing"
)

func TestWitnessC10NestedArrayField(t *testing.T) {
	var doc interface{}
	json.Unmarshal([]byte(`{"a":[[[{"b":1}]]], "c":[[{"b":1},{"b":2}],[{"b":3}]]}`), &doc)
	for prog, want := range map[string]string{`a.b`: `1`, `a.b[0]`: `1`, `c.b`: `[1,2,3]`, `$.a.b`: `1`} {
		func() {
			defer func() {
				if r := recover(); r != nil {
					t.Fatalf("WITNESS: %s panics: %v", prog, r)
				}
			}()
			v, err := MustCompile(prog).Eval(doc)
			if err != nil {
				t.Fatalf("%s: %v", prog, err)
			}
			b, _ := json.Marshal(v)
			if string(b) != want {
				t.Fatalf("WITNESS: %s = %s (%T), want %s", prog, b, v, want)
			}
		}()
	}
}
