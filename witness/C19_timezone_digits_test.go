package jsonata

// Witness for the defect found by obligation jlib.parseTimeZone:post@C19:four-decimal-digits (property C19): the time
// zone argument of $fromMillis / $toMillis is a sign followed by four digits (+HHMM / -HHMM), but the hour and minute
// fields were read with strconv.Atoi, which accepts a sign of its own: "+-100" was taken as the offset -01:00.
// Repaired by the commit recorded in /verif/known_findings.jsonl.

import (
	"testing"
)

func TestWitnessC19TimezoneDigits(t *testing.T) {
	for _, prog := range []string{`$fromMillis(0, (), "+-100")`, `$fromMillis(0, (), "++100")`, `$fromMillis(0, (), "+01-5")`} {
		if v, err := MustCompile(prog).Eval(nil); err == nil {
			t.Fatalf("WITNESS: %s = %v, want an error", prog, v)
		}
	}
	v, err := MustCompile(`$fromMillis(0, (), "-0100")`).Eval(nil)
	if err != nil || v != "1969-12-31T23:00:00.000-01:00" {
		t.Fatalf("valid offset: %v %v", v, err)
	}
}
