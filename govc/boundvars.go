package main

import "strings"

// mentionsBound: does the SMT term t mention one of the bound variables of the enclosing contract quantifiers?
func mentionsBound(t string, bound map[string]Val) bool {
	for _, v := range bound {
		if v.T != "" && strings.Contains(t, v.T) {
			return true
		}
		// keystr(q) style bound values: the variable itself is inside the term
		if i := strings.Index(v.T, "q_"); i >= 0 {
			name := v.T[i:]
			if j := strings.IndexAny(name, " )"); j > 0 {
				name = name[:j]
			}
			if strings.Contains(t, name) {
				return true
			}
		}
	}
	return false
}
