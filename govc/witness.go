package main

import (
	"encoding/json"
	"fmt"
	"os"
	"os/exec"
	"path/filepath"
	"regexp"
	"strings"
	"time"
)

// ---------------------------------------------------------------------------
// Thorough tier: the witness tests of the recorded findings are run against the real code (go test -overlay, nothing
// is written into /repo). A witness of a *fixed* finding must pass on the current tree - if it fails, the defect is
// back and that is a violation; a witness of an *open* finding is expected to fail (the KNOWN-FINDING line stands)
// and a passing one is reported as a note. This is a dynamic confirmation next to the proofs, not a substitute:
// nothing is claimed from a passing witness beyond "this input behaves".

var reTestFunc = regexp.MustCompile(`(?m)^func (Test[A-Za-z0-9_]+)\(`)

func runWitnesses(rep *checkReport, known []knownFinding, prop, repo, vdir, outDir, work string) {
	seen := map[string]bool{}
	var ran []map[string]interface{}
	for _, k := range known {
		if k.Property != prop || k.Witness == "" || !strings.HasSuffix(k.Witness, "_test.go") || seen[k.Witness+k.Status] {
			continue
		}
		seen[k.Witness+k.Status] = true
		src, err := os.ReadFile(k.Witness)
		if err != nil {
			continue
		}
		m := reTestFunc.FindSubmatch(src)
		if m == nil {
			continue
		}
		test := string(m[1])
		ov := filepath.Join(work, "ov_"+test+".json")
		b, _ := json.Marshal(map[string]interface{}{"Replace": map[string]string{filepath.Join(repo, "zz_witness_verif_test.go"): k.Witness}})
		os.WriteFile(ov, b, 0o644)
		cmd := exec.Command("go", "test", "-overlay", ov, "-vet=off", "-count=1", "-timeout", "120s", "-run", "^"+test+"$", ".")
		cmd.Dir = repo
		cmd.Env = append(os.Environ(), "GOFLAGS=-mod=mod", "GOPROXY=off", "GOSUMDB=off", "GOTOOLCHAIN=local")
		t0 := time.Now()
		out, err := cmd.CombinedOutput()
		passed := err == nil
		ran = append(ran, map[string]interface{}{"witness": k.Witness, "test": test, "finding": k.Obligation, "status": k.Status, "passed": passed, "secs": round3(time.Since(t0).Seconds())})
		switch {
		case k.Status == "fixed" && !passed:
			name := k.Obligation + ":witness"
			rp := writeReplayNote(outDir, prop, name, "the witness test of a repaired defect fails again on the current tree:\n"+tail(string(out), 30))
			fmt.Printf("VIOLATION property=%s replay=%s\n", prop, k.Witness)
			fmt.Printf("  witness %s (%s) of the repaired finding %s fails again (details: %s)\n", test, k.Witness, k.Obligation, rp)
			rep.violations = append(rep.violations, name)
			rep.obligations++
		case k.Status == "fixed":
			rep.obligations++
			rep.discharged++
		case k.Status == "open" && passed:
			fmt.Printf("note: the witness of the open finding %s passes now (%s): the finding may have been repaired\n", k.Obligation, test)
		}
	}
	if len(ran) > 0 {
		rep.extra["witness_replays"] = ran
		rep.trusted["thorough tier: witness tests of recorded findings re-run on the real code (dynamic confirmation of the repairs; listed under witness_replays)"] = true
	}
}

func tail(s string, n int) string {
	ls := strings.Split(strings.TrimRight(s, "\n"), "\n")
	if len(ls) > n {
		ls = ls[len(ls)-n:]
	}
	return strings.Join(ls, "\n")
}
