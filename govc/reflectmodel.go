package main

import (
	"fmt"
	"go/types"
	"strings"

	"golang.org/x/tools/go/ssa"
)

// ---------------------------------------------------------------------------
// Trusted model of package reflect (DESIGN §3.3): reflect.Value is an abstract identifier with pure observers;
// every method used by the repository has its documented panic condition as an obligation (class rv:<Method>)
// and a specification of its result in terms of the observers. Effects of Set/SetMapIndex/Append on what the
// observers return are NOT modelled (kinds and lengths are what the safety obligations need).

const reflectPrelude = `(declare-fun rv_kind (Int) Int)
(declare-fun rv_len (Int) Int)
(declare-fun rv_index (Int Int) Int)
(declare-fun rv_elem (Int) Int)
(declare-fun rv_isnil (Int) Bool)
(declare-fun rv_canif (Int) Bool)
(declare-fun rv_canaddr (Int) Bool)
(declare-fun rv_canset (Int) Bool)
(declare-fun rv_float (Int) F64)
(declare-fun rv_str (Int) Str)
(declare-fun rv_bool (Int) Bool)
(declare-fun rv_int (Int) Int)
(declare-fun rv_type (Int) Int)
(declare-fun rv_iface (Int) Iface)
(declare-fun rv_of (Iface) Int)
(declare-fun rv_mapindex (Int Int) Int)
(declare-fun rv_field (Int Int) Int)
(declare-fun rv_numfield (Int) Int)
(declare-fun rv_addr (Int) Int)
(declare-fun rv_resolve (Int) Int)
(declare-fun kind_of_type (Int) Int)
(declare-fun rt_ptrto (Int) Int)
(declare-fun rt_elem (Int) Int)
(declare-fun rt_implements (Int Int) Bool)
(declare-fun rv_depth (Int) Int)
(define-fun rv_wraps ((v Int)) Bool (and (or (= (rv_kind v) 20) (= (rv_kind v) 22)) (not (rv_isnil v))))
(define-fun rv_valid ((v Int)) Bool (not (= (rv_kind v) 0)))
(define-fun rv_lenkind ((k Int)) Bool (or (= k 17) (= k 18) (= k 21) (= k 23) (= k 24)))
(define-fun rv_nilkind ((k Int)) Bool (or (= k 18) (= k 19) (= k 20) (= k 21) (= k 22) (= k 23) (= k 26)))
(define-fun rv_intkind ((k Int)) Bool (and (<= 2 k) (<= k 6)))
(define-fun rv_uintkind ((k Int)) Bool (and (<= 7 k) (<= k 12)))
(define-fun rv_floatkind ((k Int)) Bool (or (= k 13) (= k 14)))
(assert (= (rv_kind 0) 0))
(assert (= (rv_resolve 0) 0))
`

// reflect.Kind values
const (
	kInvalid = 0
	kBool    = 1
	kInt     = 2
	kFloat64 = 14
	kArray   = 17
	kFunc    = 19
	kIface   = 20
	kMap     = 21
	kPtr     = 22
	kSlice   = 23
	kString  = 24
	kStruct  = 25
)

func kindOfType(t types.Type) int {
	switch u := t.Underlying().(type) {
	case *types.Basic:
		switch u.Kind() {
		case types.Bool:
			return 1
		case types.Int:
			return 2
		case types.Int8:
			return 3
		case types.Int16:
			return 4
		case types.Int32:
			return 5
		case types.Int64:
			return 6
		case types.Uint:
			return 7
		case types.Uint8:
			return 8
		case types.Uint16:
			return 9
		case types.Uint32:
			return 10
		case types.Uint64:
			return 11
		case types.Uintptr:
			return 12
		case types.Float32:
			return 13
		case types.Float64:
			return 14
		case types.Complex64:
			return 15
		case types.Complex128:
			return 16
		case types.String:
			return 24
		case types.UnsafePointer:
			return 26
		}
	case *types.Array:
		return 17
	case *types.Chan:
		return 18
	case *types.Signature:
		return 19
	case *types.Interface:
		return 20
	case *types.Map:
		return 21
	case *types.Pointer:
		return 22
	case *types.Slice:
		return 23
	case *types.Struct:
		return 25
	}
	return 0
}

// rvInv: representation invariant of a reflect.Value identifier
func rvInv(v string) string {
	return and(app("<=", "0", app("rv_kind", v)), app("<=", app("rv_kind", v), "26"), app("<=", "0", app("rv_len", v)),
		// machine assumption shared with strings and slices: a length fits the address space
		app("<=", app("rv_len", v), "2305843009213693952"),
		eq(eq(v, "0"), eq(app("rv_kind", v), "0")),
		// rv_resolve (jtypes.Resolve: strip non-nil Interface/Ptr wrappers) on a value that wraps nothing; chains are finite
		implies(not(app("rv_wraps", v)), eq(app("rv_resolve", v), v)),
		app("<=", "0", app("rv_depth", v)),
		// one unfolding at a wrapper: Resolve looks through it; what a non-nil pointer points to has the pointer
		// type's element type; a valid Value's kind is the kind of its type
		implies(app("rv_wraps", v), and(eq(app("rv_resolve", v), app("rv_resolve", app("rv_elem", v))), app("rv_valid", app("rv_elem", v)),
			implies(not(app("rv_wraps", app("rv_elem", v))), eq(app("rv_resolve", app("rv_elem", v)), app("rv_elem", v))),
			implies(eq(app("rv_kind", v), "22"), eq(app("rv_type", app("rv_elem", v)), app("rt_elem", app("rv_type", v)))),
			eq(app("kind_of_type", app("rv_type", app("rv_elem", v))), app("rv_kind", app("rv_elem", v))))),
		implies(app("rv_valid", v), eq(app("kind_of_type", app("rv_type", v)), app("rv_kind", v))),
		// an invalid Value is not nil-able, addressable or settable; a settable one is addressable
		implies(app("rv_canset", v), app("rv_canaddr", v)),
		implies(app("rv_canaddr", v), app("rv_valid", v)))
}

func (x *vc) rvFresh(st *state, hint string, t types.Type) Val {
	return x.freshVal(hint, t, st) // typeInv adds rvInv for RV sorts
}

// kindFacts: what a type tag says about values of that dynamic type
func (x *vc) kindFact(t types.Type) {
	id := x.srt.typeID(t)
	x.assume("true", eq(app("kind_of_type", smtInt(int64(id))), smtInt(int64(kindOfType(t)))))
}

func rvType(t types.Type) types.Type { return t }

// reflectModel handles calls into package reflect. ok=false: not a modelled function.
func (x *vc) reflectModel(fr *frame, st *state, callee *ssa.Function, args []Val, resT types.Type, pos string) (Val, bool) {
	name := callee.String()
	if !strings.HasPrefix(name, "(reflect.Value).") && !strings.HasPrefix(name, "reflect.") {
		return Val{}, false
	}
	x.trusted["package reflect: abstract Value model with the documented panic conditions of the methods used (reflectmodel.go)"] = true
	boolT, intT := types.Typ[types.Bool], types.Typ[types.Int]
	var v string
	if len(args) > 0 {
		v = args[0].T
	}
	kind := func(t string) string { return app("rv_kind", t) }
	need := func(method, cond, what string) {
		x.check(st, "rv:"+method, "", cond, pos, "reflect.Value."+method+": "+what)
	}
	newRV := func(hint string) Val {
		return x.freshVal(hint, resT, st)
	}
	switch name {
	case "(reflect.Value).IsValid":
		return Val{T: app("rv_valid", v), Typ: boolT}, true
	case "(reflect.Value).Kind":
		return Val{T: kind(v), Typ: resT}, true
	case "(reflect.Value).Len":
		need("Len", app("rv_lenkind", kind(v)), "receiver must be an Array, Chan, Map, Slice or String (not an Interface or invalid Value)")
		return Val{T: app("rv_len", v), Typ: intT}, true
	case "(reflect.Value).Cap":
		need("Cap", or(eq(kind(v), "17"), eq(kind(v), "18"), eq(kind(v), "23")), "receiver must be an Array, Chan or Slice")
		r := x.freshVal("cap", intT, st)
		x.assume(st.guard, app(">=", r.T, app("rv_len", v)))
		return r, true
	case "(reflect.Value).Index":
		i := args[1].T
		need("Index", and(or(eq(kind(v), "17"), eq(kind(v), "23"), eq(kind(v), "24")), app("<=", "0", i), app("<", i, app("rv_len", v))), "receiver must be an Array, Slice or String and the index in range")
		r := x.define("rvidx", sInt, app("rv_index", v, i))
		x.assume(st.guard, and(rvInv(r), app("rv_valid", r), eq(app("rv_canif", r), app("rv_canif", v)),
			implies(eq(kind(v), "23"), and(app("rv_canaddr", r), eq(app("rv_canset", r), app("rv_canif", v))))))
		return Val{T: r, Typ: resT}, true
	case "(reflect.Value).Elem":
		need("Elem", or(eq(kind(v), "20"), eq(kind(v), "22")), "receiver must be an Interface or a Ptr")
		r := x.define("rvelem", sInt, app("rv_elem", v))
		x.assume(st.guard, and(rvInv(r), eq(app("rv_valid", r), not(app("rv_isnil", v))), implies(app("rv_valid", r), eq(app("rv_canif", r), app("rv_canif", v))),
			implies(eq(kind(v), "20"), not(eq(kind(r), "20"))),
			// unfolding of rv_resolve at a wrapper, and finiteness of wrapper chains
			implies(app("rv_wraps", v), and(eq(app("rv_resolve", v), app("rv_resolve", r)), app("<", app("rv_depth", r), app("rv_depth", v))))))
		return Val{T: r, Typ: resT}, true
	case "(reflect.Value).IsNil":
		need("IsNil", app("rv_nilkind", kind(v)), "receiver must be a Chan, Func, Interface, Map, Ptr, Slice or UnsafePointer")
		return Val{T: app("rv_isnil", v), Typ: boolT}, true
	case "(reflect.Value).CanInterface":
		need("CanInterface", app("rv_valid", v), "receiver must be valid (panics on the zero Value)")
		return Val{T: app("rv_canif", v), Typ: boolT}, true
	case "(reflect.Value).CanAddr":
		return Val{T: app("rv_canaddr", v), Typ: boolT}, true
	case "(reflect.Value).CanSet":
		return Val{T: app("rv_canset", v), Typ: boolT}, true
	case "(reflect.Value).Interface":
		need("Interface", and(app("rv_valid", v), app("rv_canif", v)), "receiver must be valid and obtained without unexported struct fields")
		r := x.define("rviface", sIface, app("rv_iface", v))
		inner := ite(eq(kind(v), "20"), app("rv_elem", v), v)
		x.assume(st.guard, and(
			implies(not(eq(kind(v), "20")), and(not(eq(app("itag", r), "0")), eq(app("itag", r), app("rv_type", v)), eq(app("kind_of_type", app("itag", r)), kind(v)))),
			// an Interface-kinded Value yields what the interface holds: nil for a nil interface, else the element's dynamic type
			implies(and(eq(kind(v), "20"), app("rv_isnil", v)), eq(r, "(mkiface 0 0)")),
			implies(and(eq(kind(v), "20"), not(app("rv_isnil", v))), and(not(eq(app("itag", r), "0")), eq(app("kind_of_type", app("itag", r)), kind(app("rv_elem", v))))),
			implies(app("rv_floatkind", kind(inner)), eq(app("unbox_F64", app("ival", r)), app("rv_float", inner))),
			implies(eq(kind(inner), "24"), eq(app("unbox_Str", app("ival", r)), app("rv_str", inner))),
			implies(eq(kind(inner), "1"), eq(app("unbox_Bool", app("ival", r)), app("rv_bool", inner))),
			eq(app("rv_of", r), inner)))
		return Val{T: r, Typ: resT}, true
	case "reflect.ValueOf":
		i := args[0].T
		r := x.define("rvof", sInt, app("rv_of", i))
		x.assume(st.guard, and(rvInv(r),
			eq(app("rv_valid", r), not(eq(i, "(mkiface 0 0)"))),
			implies(app("rv_valid", r), and(eq(kind(r), app("kind_of_type", app("itag", i))), eq(app("rv_type", r), app("itag", i)), app("rv_canif", r), not(app("rv_canaddr", r)), not(eq(kind(r), "20")))),
			implies(app("rv_floatkind", kind(r)), eq(app("rv_float", r), app("unbox_F64", app("ival", i)))),
			implies(eq(kind(r), "24"), eq(app("rv_str", r), app("unbox_Str", app("ival", i)))),
			implies(eq(kind(r), "1"), eq(app("rv_bool", r), app("unbox_Bool", app("ival", i)))),
			implies(eq(kind(r), "22"), eq(app("rv_isnil", r), eq(app("ival", i), "0"))),
			implies(eq(kind(r), "23"), eq(app("rv_len", r), app("sl_len", app("unbox_Slice", app("ival", i))))),
			eq(app("rv_iface", r), i)))
		return Val{T: r, Typ: resT}, true
	case "(reflect.Value).Float":
		need("Float", app("rv_floatkind", kind(v)), "receiver must be a Float32 or Float64")
		return Val{T: app("rv_float", v), Typ: resT}, true
	case "(reflect.Value).Bool":
		need("Bool", eq(kind(v), "1"), "receiver must be a Bool")
		return Val{T: app("rv_bool", v), Typ: resT}, true
	case "(reflect.Value).Int":
		need("Int", app("rv_intkind", kind(v)), "receiver must be an Int kind")
		r := x.freshVal("rvint", resT, st)
		x.assume(st.guard, eq(r.T, app("rv_int", v)))
		return r, true
	case "(reflect.Value).Uint":
		need("Uint", app("rv_uintkind", kind(v)), "receiver must be a Uint kind")
		return x.freshVal("rvuint", resT, st), true
	case "(reflect.Value).String":
		r := x.freshVal("rvstr", resT, st)
		x.assume(st.guard, implies(eq(kind(v), "24"), eq(r.T, app("rv_str", v))))
		return r, true
	case "(reflect.Value).Type":
		need("Type", app("rv_valid", v), "receiver must be valid")
		r := x.freshResult(st, resT, "rvtype")
		// the reflect.Type descriptor of v's type: identified with the type tag (rtype_id), never nil
		x.rtypeCanon(st.guard, r.T, app("rv_type", v))
		x.assume(st.guard, eq(app("kind_of_type", app("rv_type", v)), kind(v)))
		return r, true
	case "(reflect.Value).MapIndex":
		need("MapIndex", eq(kind(v), "21"), "receiver must be a Map")
		r := x.define("rvmapidx", sInt, app("rv_mapindex", v, args[1].T))
		x.assume(st.guard, and(rvInv(r), implies(app("rv_valid", r), and(eq(app("rv_canif", r), app("rv_canif", v)), not(app("rv_canaddr", r))))))
		return Val{T: r, Typ: resT}, true
	case "(reflect.Value).MapKeys":
		need("MapKeys", eq(kind(v), "21"), "receiver must be a Map")
		r := x.freshVal("mapkeys", resT, st)
		x.assume(st.guard, and(eq(app("sl_len", r.T), app("rv_len", v)), app(">", app("sl_arr", r.T), "0"), app(">=", app("sl_off", r.T), "0"), app("<=", app("sl_len", r.T), app("sl_cap", r.T))))
		// the list is a new slice that only the caller holds: when the caller merely indexes it (range loop), no callee
		// can ever reach it
		if fr.top && x.curCall != nil {
			if cv, ok := x.curCall.(ssa.Value); ok && onlyIndexed(cv) {
				x.needLocalobj()
				x.hasLocal = true
				x.assume(st.guard, app("localobj", app("sl_arr", r.T)))
			}
		}
		// documented: every key present in the map, once. Each element is a valid Value (interfaceable when the map
		// is), MapIndex of it is valid, and the keys are pairwise different (rv_keyord: the key's position in the list).
		if sl, ok := resT.Underlying().(*types.Slice); ok {
			es, esrt := x.elemArr(st, sl.Elem())
			ea := x.heapArr(st, es, esrt)
			// quantified over the absolute position m in the backing array (a pattern with arithmetic in it is not matched reliably)
			el := fmt.Sprintf("(select (select %s (sl_arr %s)) m)", ea, r.T)
			x.needDecl("(declare-fun rv_keyord (Int Int) Int)")
			x.assume(st.guard, fmt.Sprintf("(forall ((m Int)) (! (=> (and (<= (sl_off %s) m) (< m (+ (sl_off %s) (sl_len %s)))) (and %s (rv_valid %s) (= (rv_canif %s) (rv_canif %s)) (not (rv_canaddr %s)) (rv_valid (rv_mapindex %s %s)) (= (rv_canif (rv_mapindex %s %s)) (rv_canif %s)) (= (rv_keyord %s %s) m))) :pattern (%s)))",
				r.T, r.T, r.T, rvInv(el), el, el, v, el, v, el, v, el, v, v, el, el))
		}
		return r, true
	case "(reflect.Value).SetMapIndex":
		// deleting (zero elem) from a nil map is a no-op; storing into one panics
		need("SetMapIndex", and(eq(kind(v), "21"), app("rv_canif", v), app("rv_valid", args[1].T), app("rv_canif", args[1].T), implies(app("rv_valid", args[2].T), and(not(app("rv_isnil", v)), app("rv_canif", args[2].T)))), "receiver must be a Map obtained without unexported fields, non-nil when an element is stored; key and element usable (not obtained through unexported fields)")
		return Val{}, true
	case "(reflect.Value).Set":
		need("Set", and(app("rv_canset", v), app("rv_valid", args[1].T), app("rv_canif", args[1].T)), "receiver must be settable (addressable, exported) and the argument valid and not obtained through an unexported field")
		return Val{}, true
	case "(reflect.Value).NumField":
		need("NumField", eq(kind(v), "25"), "receiver must be a Struct")
		r := x.freshVal("numfield", intT, st)
		x.needDecl("(declare-fun rt_numfield (Int) Int)")
		x.assume(st.guard, and(app("<=", "0", r.T), eq(r.T, app("rv_numfield", v)), eq(app("rv_numfield", v), app("rt_numfield", app("rv_type", v)))))
		return r, true
	case "(reflect.Value).Field":
		need("Field", and(eq(kind(v), "25"), app("<=", "0", args[1].T), app("<", args[1].T, app("rv_numfield", v))), "receiver must be a Struct and the index in range")
		r := x.define("rvfield", sInt, app("rv_field", v, args[1].T))
		x.assume(st.guard, and(rvInv(r), app("rv_valid", r), implies(app("rv_canif", r), app("rv_canif", v))))
		return Val{T: r, Typ: resT}, true
	case "(reflect.Value).FieldByName":
		need("FieldByName", eq(kind(v), "25"), "receiver must be a Struct")
		r := newRV("rvfieldbyname")
		x.assume(st.guard, implies(app("rv_canif", r.T), app("rv_canif", v)))
		return r, true
	case "(reflect.Value).FieldByIndex":
		// index path: the first index must be in range (the nested ones are not modelled)
		need("FieldByIndex", eq(kind(v), "25"), "receiver must be a Struct")
		if args[1].T != "" {
			es, esrt := x.elemArr(st, types.Typ[types.Int])
			first := fmt.Sprintf("(select (select %s (sl_arr %s)) (sl_off %s))", x.heapArr(st, es, esrt), args[1].T, args[1].T)
			need("FieldByIndex.index", implies(app(">=", app("sl_len", args[1].T), "1"), and(app("<=", "0", first), app("<", first, app("rv_numfield", v)))), "the first index must be in range")
		}
		r := newRV("rvfieldbyindex")
		x.assume(st.guard, and(app("rv_valid", r.T), implies(app("rv_canif", r.T), app("rv_canif", v))))
		return r, true
	case "(reflect.Value).Addr":
		need("Addr", app("rv_canaddr", v), "receiver must be addressable")
		r := x.define("rvaddr", sInt, app("rv_addr", v))
		x.needRType()
		x.assume(st.guard, and(rvInv(r), eq(kind(r), "22"), not(app("rv_isnil", r)), eq(app("rv_canif", r), app("rv_canif", v)), eq(app("rv_elem", r), v),
			eq(app("rv_type", r), app("rt_ptrto", app("rv_type", v)))))
		return Val{T: r, Typ: resT}, true
	case "(reflect.Value).Convert":
		need("Convert", app("rv_valid", v), "receiver must be valid (and convertible to the target type: not modelled)")
		r := newRV("rvconv")
		x.assume(st.guard, and(app("rv_valid", r.T), eq(app("rv_canif", r.T), app("rv_canif", v))))
		return r, true
	case "(reflect.Value).Slice":
		need("Slice", and(or(eq(kind(v), "17"), eq(kind(v), "23"), eq(kind(v), "24")), app("<=", "0", args[1].T), app("<=", args[1].T, args[2].T), app("<=", args[2].T, app("rv_len", v))), "bounds in range")
		r := newRV("rvslice")
		x.assume(st.guard, and(eq(kind(r.T), ite(eq(kind(v), "24"), "24", "23")), eq(app("rv_len", r.T), app("-", args[2].T, args[1].T)), eq(app("rv_canif", r.T), app("rv_canif", v))))
		return r, true
	case "(reflect.Value).Call", "(reflect.Value).CallSlice":
		need("Call", eq(kind(v), "19"), "receiver must be a Func (argument count and types: checked by the callers' own validation, not modelled)")
		x.havocCall(st, resT, "reflect.Value.Call (extension function)", true)
		r := x.freshVal("callres", resT, st)
		x.assume(st.guard, app(">", app("sl_arr", r.T), "0"))
		return r, true
	case "(reflect.Value).Pointer", "(reflect.Value).UnsafePointer":
		return x.freshResult(st, resT, "rvptr"), true
	case "reflect.MakeSlice":
		ln, cp := args[1].T, args[2].T
		need("MakeSlice", and(app("<=", "0", ln), app("<=", ln, cp)), "0 <= len <= cap")
		r := newRV("rvmkslice")
		x.assume(st.guard, and(eq(kind(r.T), "23"), eq(app("rv_len", r.T), ln), app("rv_canif", r.T), not(app("rv_isnil", r.T)), not(app("rv_canaddr", r.T))))
		return r, true
	case "reflect.MakeMap", "reflect.MakeMapWithSize":
		r := newRV("rvmkmap")
		x.assume(st.guard, and(eq(kind(r.T), "21"), eq(app("rv_len", r.T), "0"), app("rv_canif", r.T), not(app("rv_isnil", r.T))))
		return r, true
	case "reflect.Append":
		need("Append", eq(kind(v), "23"), "first argument must be a Slice")
		r := newRV("rvappend")
		n := "0"
		if len(args) > 1 && args[1].T != "" {
			n = app("sl_len", args[1].T)
			// every appended Value is Set into the result: it must be valid and not obtained through an unexported field
			if slT, ok := args[1].Typ.Underlying().(*types.Slice); ok {
				name, srt := x.elemArr(st, slT.Elem())
				cur := x.heapArr(st, name, srt)
				el := fmt.Sprintf("(select (select %s (sl_arr %s)) (+ (sl_off %s) ak))", cur, args[1].T, args[1].T)
				need("Append.arg", fmt.Sprintf("(forall ((ak Int)) (=> (and (<= 0 ak) (< ak (sl_len %s))) (and (rv_valid %s) (rv_canif %s))))", args[1].T, el, el), "every appended Value must be valid and obtained without unexported struct fields")
			}
		}
		x.assume(st.guard, and(eq(kind(r.T), "23"), eq(app("rv_len", r.T), app("+", app("rv_len", v), n)), eq(app("rv_canif", r.T), app("rv_canif", v)), not(app("rv_isnil", r.T))))
		return r, true
	case "reflect.AppendSlice":
		need("AppendSlice", and(eq(kind(v), "23"), eq(kind(args[1].T), "23"), app("rv_canif", args[1].T)), "both arguments must be Slices, the second not obtained through an unexported field")
		r := newRV("rvappendslice")
		x.assume(st.guard, and(eq(kind(r.T), "23"), eq(app("rv_len", r.T), app("+", app("rv_len", v), app("rv_len", args[1].T))), eq(app("rv_canif", r.T), app("rv_canif", v))))
		return r, true
	case "reflect.New":
		// a non-nil pointer to a new zero value of the described type
		r := newRV("rvnew")
		x.needRType()
		pt := app("rt_ptrto", app("rtype_id", args[0].T))
		x.check(st, "rv:New", "", not(eq(args[0].T, "(mkiface 0 0)")), pos, "reflect.New: the type must not be nil")
		x.assume(st.guard, and(eq(kind(r.T), "22"), app("rv_valid", r.T), app("rv_canif", r.T), not(app("rv_isnil", r.T)), eq(app("rv_type", r.T), pt), eq(app("kind_of_type", pt), "22")))
		return r, true
	case "reflect.Zero":
		r := newRV("rvzero")
		x.needRType()
		x.check(st, "rv:Zero", "", not(eq(args[0].T, "(mkiface 0 0)")), pos, "reflect.Zero: the type must not be nil")
		x.assume(st.guard, and(app("rv_valid", r.T), app("rv_canif", r.T), eq(app("rv_type", r.T), app("rtype_id", args[0].T))))
		return r, true
	case "reflect.Indirect":
		return newRV("rvindirect"), true
	case "reflect.TypeOf":
		// nil for the nil interface, else the descriptor of the dynamic type
		r := x.freshResult(st, resT, "rtypeof")
		x.needRType()
		x.assume(st.guard, eq(eq(r.T, "(mkiface 0 0)"), eq(args[0].T, "(mkiface 0 0)")))
		x.rtypeCanon(and(st.guard, not(eq(args[0].T, "(mkiface 0 0)"))), r.T, app("itag", args[0].T))
		return r, true
	case "reflect.PtrTo", "reflect.PointerTo":
		// the descriptor of *T
		r := x.freshResult(st, resT, "rtype")
		x.needRType()
		x.rtypeCanon(st.guard, r.T, app("rt_ptrto", app("rtype_id", args[0].T)))
		return r, true
	case "reflect.SliceOf", "reflect.MapOf":
		r := x.freshResult(st, resT, "rtype")
		x.assume(st.guard, and(not(eq(app("itag", r.T), "0")), not(eq(app("ival", r.T), "0")))) // type constructors never return nil
		return r, true
	case "reflect.DeepEqual":
		r := x.freshVal("deepeq", boolT, st)
		x.assume(st.guard, implies(eq(args[0].T, args[1].T), r.T))
		return r, true
	case "reflect.Copy":
		return x.freshResult(st, resT, "rvcopy"), true
	}
	if strings.HasPrefix(name, "(reflect.Value).") {
		x.note("reflect method %s not modelled: no panic condition checked, result unconstrained", name)
		x.trusted["unmodelled reflect method "+name+": assumed not to panic"] = true
		return x.freshResult(st, resT, "rv_unmodelled"), true
	}
	return Val{}, false
}
