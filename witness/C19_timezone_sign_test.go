package jsonata

// Witness for the defect found by the obligations formatTimezoneShort/Long/Split:post@C19:sign-of-the-offset (property
// C19): the sign of a numeric time-zone component was taken from the hours alone, so an offset between -1 hour and 0
// lost it: $fromMillis(0, (), "-0030") ended in "+00:30" and $fromMillis(0, "[Z0000]", "-0030") was "+-0030".
// Repaired by the commit recorded in /verif/known_findings.jsonl.

import (
	"testing"
)

func TestWitnessC19TimezoneSign(t *testing.T) {
	for prog, want := range map[string]string{
		`$fromMillis(0, "[Z0000]", "-0030")`:  "-0030",
		`$fromMillis(0, "[Z01:01]", "-0030")`: "-00:30",
		`$fromMillis(0, "[Z0]", "-0030")`:     "-0:30",
		`$fromMillis(0, "[Z0000]", "-0130")`:  "-0130",
		`$fromMillis(0, "[Z01:01]", "-0130")`: "-01:30",
		`$fromMillis(0, "[Z0]", "-0130")`:     "-1:30",
		`$fromMillis(0, "[Z0000]", "+0030")`:  "+0030",
		`$fromMillis(0, "[Z01:01]", "+0530")`: "+05:30",
		`$fromMillis(0, "[Z0]", "+0530")`:     "+5:30",
		`$fromMillis(0, (), "-0030")`:         "1969-12-31T23:30:00.000-00:30",
	} {
		v, err := MustCompile(prog).Eval(nil)
		if err != nil {
			t.Fatalf("%s: %v", prog, err)
		}
		if v != want {
			t.Fatalf("WITNESS: %s = %v, want %s", prog, v, want)
		}
	}
}
