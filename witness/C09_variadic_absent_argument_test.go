package jsonata

// Witness for the defect found by obligation (*lambdaCallable).wrapVariadicArgs:rv:Set:0 (properties C09 and C12): a
// function with a variadic signature called with an argument that has no value - (function($x)<n+>{$count($x)})(nothing) -
// made wrapVariadicArgs call reflect.Value.Set with the zero Value, which panics; the panic escaped Eval. Absent
// arguments are not type checked (validateArgTypes skips them), so they do reach the variadic tail.
// Repaired by the commit recorded in /verif/known_findings.jsonl.

import (
	"testing"
)

func TestWitnessC09VariadicAbsentArgument(t *testing.T) {
	for _, prog := range []string{`(function($x)<n+>{$count($x)})(nothing)`, `(function($x)<n+>{$count($x)})(1, nothing, 3)`} {
		func() {
			defer func() {
				if r := recover(); r != nil {
					t.Fatalf("WITNESS: %s panics: %v", prog, r)
				}
			}()
			_, err := MustCompile(prog).Eval(nil)
			if err != nil && err != ErrUndefined {
				t.Logf("%s: %v", prog, err)
			}
		}()
	}
}
