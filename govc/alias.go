package main

import (
	"encoding/json"
	"fmt"
	"go/types"
	"os"
	"path/filepath"
	"regexp"
	"sort"
	"sync"

	"golang.org/x/tools/go/ssa"
)

// Contracts name local variables of the function they are attached to (loop invariants, in-body clauses). Renaming a
// local is a harmless edit and must not raise an alarm, so a local is anchored the way a call site is: by its ordinal
// among the function's declared variables. <verif>/locals_baseline.json records, per function under contract, the
// declared variables (parameters, results, locals) in order of declaration as they were when the contracts were
// written. If the current function declares the same number of variables, a baseline name that no longer exists in it
// stands for the variable declared at the same ordinal now. Nothing is trusted by this: the obligations are generated
// from the renamed code and discharged as always; if the counts differ, or the name is still missing, the clause has
// lost its anchor and that is reported as before.

// declaredVars lists the variables fn declares (with a debug reference or a parameter), in order of declaration.
func declaredVars(fn *ssa.Function) []string {
	if fn == nil || fn.Syntax() == nil {
		return nil
	}
	lo, hi := fn.Syntax().Pos(), fn.Syntax().End()
	seen := map[types.Object]bool{}
	var objs []types.Object
	add := func(o types.Object) {
		v, ok := o.(*types.Var)
		if !ok || v.IsField() || seen[o] || o.Name() == "_" || o.Name() == "" {
			return
		}
		if o.Pos() < lo || o.Pos() >= hi {
			return
		}
		seen[o] = true
		objs = append(objs, o)
	}
	for _, p := range fn.Params {
		if p.Object() != nil {
			add(p.Object())
		}
	}
	nParams := len(objs)
	for _, b := range fn.Blocks {
		for _, in := range b.Instrs {
			if dr, ok := in.(*ssa.DebugRef); ok && dr.Object() != nil {
				add(dr.Object())
			}
		}
	}
	_ = nParams
	sort.SliceStable(objs, func(i, j int) bool { return objs[i].Pos() < objs[j].Pos() })
	// captured variables first (declared outside the function literal), in capture order
	var names []string
	for _, fv := range fn.FreeVars {
		names = append(names, fv.Name())
	}
	for _, o := range objs {
		names = append(names, o.Name())
	}
	return names
}

var localsBaseline map[string][]string
var localsBaselineLoaded bool

func loadLocalsBaseline() map[string][]string {
	if localsBaselineLoaded {
		return localsBaseline
	}
	localsBaselineLoaded = true
	b, err := os.ReadFile(filepath.Join(verifDir(), "locals_baseline.json"))
	if err != nil {
		return nil
	}
	m := map[string][]string{}
	if json.Unmarshal(b, &m) == nil {
		localsBaseline = m
	}
	return localsBaseline
}

// renamedLocals maps a baseline name that fn no longer declares to the name declared at the same ordinal now.
func renamedLocals(fn *ssa.Function) map[string]string {
	if fn == nil || fn.Pkg == nil {
		return nil
	}
	renamedMu.Lock()
	defer renamedMu.Unlock()
	if m, ok := renamedCache[fn]; ok {
		return m
	}
	m := renamedLocals1(fn)
	renamedCache[fn] = m
	return m
}

var renamedMu sync.Mutex
var renamedCache = map[*ssa.Function]map[string]string{}

func renamedLocals1(fn *ssa.Function) map[string]string {
	base := loadLocalsBaseline()
	if base == nil {
		return nil
	}
	old, ok := base[fn.Pkg.Pkg.Path()+"."+fn.RelString(fn.Pkg.Pkg)]
	if !ok {
		return nil
	}
	cur := declaredVars(fn)
	if len(cur) != len(old) {
		return nil
	}
	have := map[string]bool{}
	for _, n := range cur {
		have[n] = true
	}
	var m map[string]string
	for i := range old {
		if old[i] != cur[i] && !have[old[i]] {
			if m == nil {
				m = map[string]string{}
			}
			if prev, dup := m[old[i]]; dup && prev != cur[i] {
				m[old[i]] = "" // the same old name at two ordinals, renamed differently: ambiguous
				continue
			}
			m[old[i]] = cur[i]
		}
	}
	return m
}

// cmdLocals writes the baseline (run when contracts are written against the current tree, never by a check).
func cmdLocals(args []string) {
	p, err := loadProgram("/repo", verifDir())
	if err != nil {
		fmt.Fprintln(os.Stderr, err)
		os.Exit(2)
	}
	out := map[string][]string{}
	for key := range p.cons.funcs {
		fn := p.funcs[key]
		if fn == nil {
			continue
		}
		if names := declaredVars(fn); len(names) > 0 {
			out[key] = names
		}
	}
	b, _ := json.MarshalIndent(out, "", " ")
	path := filepath.Join(verifDir(), "locals_baseline.json")
	if len(args) > 0 {
		path = args[0]
	}
	if err := os.WriteFile(path, append(b, '\n'), 0o644); err != nil {
		fmt.Fprintln(os.Stderr, err)
		os.Exit(2)
	}
	fmt.Printf("%d functions, baseline written to %s\n", len(out), path)
}

// baselineText rewrites the source text of an expression of fn with the names its variables had in the baseline (the
// anchor of an `atif "source text"` clause is compared with this).
func baselineText(fn *ssa.Function, text string) string {
	for oldName, newName := range renamedLocals(fn) {
		if newName == "" {
			continue
		}
		text = regexp.MustCompile(`\b`+regexp.QuoteMeta(newName)+`\b`).ReplaceAllString(text, oldName)
	}
	return text
}

// aliasRenamed makes the parameters and captured variables of fn known to a contract environment under the names they
// had in the baseline as well.
func aliasRenamed(fn *ssa.Function, env *cenv) {
	for oldName, newName := range renamedLocals(fn) {
		if newName == "" {
			continue
		}
		if v, ok := env.vars[newName]; ok {
			if _, taken := env.vars[oldName]; !taken {
				env.vars[oldName] = v
			}
		}
		if c, ok := env.fvCells[newName]; ok {
			if _, taken := env.fvCells[oldName]; !taken {
				env.fvCells[oldName] = c
			}
		}
	}
}
