package jsonata

// Witness for the defect found by obligation jxpath.parseWidthModifier:post@C19:a-star-maximum-is-unbounded-not-too-small:0
// (property C19): in a width modifier "min-max" either bound may be "*" (unbounded). parseWidth represents "*" as 0,
// and parseWidthModifier then rejects "2-*" because 0 < 2: "maximum width cannot be less than minimum width". A valid
// picture such as [Y,2-*] or [MNn,3-*] is reported as invalid. Repaired by the commit recorded in
// /verif/known_findings.jsonl (an unbounded maximum is not compared with the minimum).

import (
	"testing"
)

func TestWitnessC19StarMaximumWidth(t *testing.T) {
	for _, c := range []struct{ prog, want string }{
		{`$fromMillis(0, "[Y,2-*]")`, "1970"},
		{`$fromMillis(0, "[MNn,3-*]")`, "January"},
		{`$fromMillis(0, "[Y,*-4]")`, "1970"},
	} {
		v, err := MustCompile(c.prog).Eval(nil)
		if err != nil || v != c.want {
			t.Fatalf("WITNESS: %s = %v, %v; want %q", c.prog, v, err, c.want)
		}
	}
	// a maximum below the minimum is still an error
	if _, err := MustCompile(`$fromMillis(0, "[Y,4-2]")`).Eval(nil); err == nil {
		t.Fatalf("[Y,4-2] accepted")
	}
}
