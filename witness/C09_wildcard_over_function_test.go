package jsonata

// Witness for the defect found by obligation appendWildcard:pre@flattenArray:0 (property C09, "functions used as data
// in paths, wildcards"): a wildcard step over a built-in function value ($sum.*) walks the fields of the Go struct
// behind it; the unexported slice field is an array as far as jtypes.IsArray is concerned and was handed to
// flattenArray, whose reflect.Append panics on values obtained through unexported fields ("reflect.Value.Set using
// value obtained using unexported field"). The panic escaped Eval. Repaired by the commit recorded in
// /verif/known_findings.jsonl.

import (
	"testing"
)

func TestWitnessC09WildcardOverFunction(t *testing.T) {
	for _, prog := range []string{`$sum.*`, `$sum.**`, `[$sum, $string].*`} {
		func() {
			defer func() {
				if r := recover(); r != nil {
					t.Fatalf("WITNESS: %s panics: %v", prog, r)
				}
			}()
			if _, err := MustCompile(prog).Eval(nil); err != nil && err != ErrUndefined {
				t.Logf("%s: %v", prog, err)
			}
		}()
	}
}
