package main

import (
	"fmt"
	"go/token"
	"os"
	"path/filepath"
	"sort"
	"strings"

	"golang.org/x/tools/go/ssa"
)

// runExtras adds the property-specific engines to a check: the ownership / frame calculus (C05, C06, C07)
// with the lock-set obligations for C06.
func runExtras(p *program, rep *checkReport, vdir, repo, work string) {
	switch rep.prop {
	case "C05", "C06", "C07":
		frameCheck(p, rep, vdir)
	}
}

func frameCheck(p *program, rep *checkReport, vdir string) {
	fa, problems := buildFrame(p, false)
	obs := fa.obligations()
	if rep.prop == "C06" {
		obs = append(obs, locksetObligations(p)...)
		// Compile / package-level registration running alongside evaluations: no write to package-level state
		// other than the lock-guarded registry, and no alias of the registry map escapes the lock
		ga, gproblems := buildFrame(p, true)
		for _, o := range ga.obligations() {
			if o.class == "nopkgwrite" || o.class == "lockset-escape" || o.class == "effects" {
				obs = append(obs, o)
			}
			if o.class == "fresh-result" && fa.sums[p.funcs[o.fn]] == nil {
				obs = append(obs, o)
			}
		}
		problems = append(problems, gproblems...)
		rep.extra["frame_pkgstate"] = map[string]interface{}{"functions_analysed": len(ga.order), "entry_points": len(ga.roots)}
	}
	if rep.prop == "C07" {
		// C07 is about the caller's data: writes into the compiled expression or into built-in callables belong to C05/C06
		var keep []frameObligation
		for _, o := range obs {
			if strings.Contains(o.what, "field jparse.") || strings.Contains(o.what, "field jsonata.goCallable") || strings.Contains(o.what, "field jsonata.callableName") || strings.Contains(o.what, "field jsonata.Expr") {
				continue
			}
			keep = append(keep, o)
		}
		obs = keep
	}
	for _, pr := range problems {
		obs = append(obs, frameObligation{name: "frame:config:" + mangle(pr), what: pr, class: "config", why: "configuration of the ownership analysis does not match the tree"})
	}
	nOK := 0
	fnSet := map[string]bool{}
	for _, o := range obs {
		fnSet[o.fn] = true
		if _, un := rep.isUnclaimed(o.name); un {
			rep.unclaimedN++
			continue
		}
		if o.ok {
			nOK++
			rep.obligations++
			rep.discharged++
			continue
		}
		if kf := rep.isKnown(o.name); kf != nil {
			rep.knownN++
			fmt.Printf("KNOWN-FINDING: property=%s %s: %s\n", rep.prop, o.name, kf.What)
			continue
		}
		rep.obligations++
		note := fmt.Sprintf("obligation: %s\nclass: %s (ownership / frame calculus: def-use derivation over the SSA of /repo, no SMT model)\nposition: %s\nwrite: %s\nregion of the target: %s\nreason: %s\n\nNo counterexample input is produced by this engine: the obligation states that the written memory was allocated by the\ncurrent evaluation; the derivation above shows a flow from memory that exists before Eval is entered (compiled expression,\nregistry / base environment, input document, package-level variable) to the written location.\n",
			o.name, o.class, o.pos, o.what, o.region, o.why)
		dir := filepath.Join(vdir, "replays", rep.prop)
		os.MkdirAll(dir, 0o755)
		base := mangle(strings.TrimPrefix(o.name, modPath))
		if len(base) > 120 {
			base = base[len(base)-120:]
		}
		path := filepath.Join(dir, base+".txt")
		os.WriteFile(path, []byte(note), 0o644)
		fmt.Printf("VIOLATION property=%s replay=%s no-failing-input-found\n", rep.prop, path)
		fmt.Printf("  obligation %s at %s: %s [%s]\n", o.name, o.pos, o.what, o.region)
		rep.violations = append(rep.violations, o.name)
	}
	var samples []interface{}
	for _, o := range obs {
		if o.ok && len(samples) < 5 && o.region != "owned" {
			samples = append(samples, map[string]interface{}{"obligation": o.name, "at": o.pos, "write": o.what, "region": o.region, "why": o.why})
		}
	}
	for _, o := range obs {
		if o.ok && len(samples) < 8 && o.region == "owned" && strings.Contains(o.what, "reflect") {
			samples = append(samples, map[string]interface{}{"obligation": o.name, "at": o.pos, "write": o.what, "region": o.region, "why": o.why})
		}
	}
	rep.samples = append(rep.samples, samples...)
	var roots []string
	for _, r := range fa.roots {
		roots = append(roots, fnKey(r))
	}
	var evalTypes, ownedFields, sharedFields []string
	for k := range fa.ownedTypes {
		evalTypes = append(evalTypes, k)
	}
	for k := range fa.ownedFields {
		ownedFields = append(ownedFields, k)
	}
	for k := range fa.sharedFields {
		sharedFields = append(sharedFields, k)
	}
	sort.Strings(evalTypes)
	sort.Strings(ownedFields)
	sort.Strings(sharedFields)
	rep.extra["frame"] = map[string]interface{}{
		"engine":                     "ownership / frame calculus over go/ssa (interprocedural region analysis with function summaries, CHA for interface and function-value calls)",
		"functions_analysed":         len(fa.order),
		"entry_points":               len(roots),
		"write_sites":                len(obs),
		"write_sites_owned":          nOK,
		"evaluation_only_types":      evalTypes,
		"fields_declared_owned":      ownedFields,
		"fields_declared_shared":     sharedFields,
		"functions_with_write_sites": len(fnSet),
	}
	rep.trusted["soundness of the ownership calculus (regions, field qualifiers checked at every store, evaluation-only types by rely/guarantee): pen-and-paper argument, DESIGN §3.7"] = true
	rep.trusted["effect table for functions outside the repository (sort.*, reflect.*, encoding/json, strings.Builder ...): assumed complete for the callees that occur"] = true
	rep.assumptions["input documents and registered variables contain no evaluator-internal callable objects (JSON-like data and Go extension functions only)"] = true
	rep.assumptions["built-in functions are invoked only through reflect.Value.Call, which allocates variadic parameter slices itself"] = true
}

// locksetObligations: every access to the package-level registry happens with globalRegistryMutex held.
func locksetObligations(p *program) []frameObligation {
	var out []frameObligation
	sp := p.spkgs[modPath]
	if sp == nil {
		return nil
	}
	reg, _ := sp.Members["globalRegistry"].(*ssa.Global)
	mu, _ := sp.Members["globalRegistryMutex"].(*ssa.Global)
	if reg == nil || mu == nil {
		return []frameObligation{{name: modPath + ".globalRegistry:lockset:0", fn: modPath, what: "package-level registry or its mutex not found", class: "lockset", why: "expected globalRegistry guarded by globalRegistryMutex"}}
	}
	var fns []*ssa.Function
	for _, fn := range p.funcs {
		if fn.Pkg == sp && fn.Synthetic == "" {
			fns = append(fns, fn)
		}
	}
	sort.Slice(fns, func(i, j int) bool { return fnKey(fns[i]) < fnKey(fns[j]) })
	for _, fn := range fns {
		k := 0
		for _, b := range fn.Blocks {
			for idx, instr := range b.Instrs {
				uses := false
				for _, op := range instr.Operands(nil) {
					if *op == ssa.Value(reg) {
						uses = true
					}
				}
				if !uses {
					continue
				}
				if _, isDbg := instr.(*ssa.DebugRef); isDbg {
					continue
				}
				_, isStore := instr.(*ssa.Store)
				held := lockHeldAt(fn, b, idx, mu, isStore)
				released := unlockOnAllPaths(fn, b, idx, mu)
				ob := frameObligation{name: fmt.Sprintf("%s:lockset:%d", fnKey(fn), k), fn: fnKey(fn), pos: p.pos(instr.Pos()), class: "lockset",
					what: "access to globalRegistry", region: "shared", ok: held && released}
				if ob.ok {
					ob.why = "dominated by Lock/RLock of globalRegistryMutex and followed by the matching unlock on every path"
				} else {
					ob.why = fmt.Sprintf("lock held: %v, unlocked on all paths: %v (a write needs Lock, a read RLock or Lock)", held, released)
				}
				out = append(out, ob)
				k++
			}
		}
	}
	return out
}

func isMutexCall(instr ssa.Instruction, mu *ssa.Global, names ...string) bool {
	ci, ok := instr.(ssa.CallInstruction)
	if !ok {
		return false
	}
	cc := ci.Common()
	callee := cc.StaticCallee()
	if callee == nil || len(cc.Args) == 0 || cc.Args[0] != ssa.Value(mu) {
		return false
	}
	for _, n := range names {
		if callee.Name() == n {
			return true
		}
	}
	return false
}

// lockHeldAt: some Lock (or RLock for reads) call dominates the access and no unlock lies between in the same block chain
func lockHeldAt(fn *ssa.Function, blk *ssa.BasicBlock, idx int, mu *ssa.Global, write bool) bool {
	names := []string{"Lock"}
	if !write {
		names = append(names, "RLock")
	}
	// same block, earlier instruction
	for i := idx - 1; i >= 0; i-- {
		if isMutexCall(blk.Instrs[i], mu, "Unlock", "RUnlock") {
			return false
		}
		if isMutexCall(blk.Instrs[i], mu, names...) {
			return true
		}
	}
	// dominating blocks: the nearest mutex operation on the dominator chain must be a lock
	for d := blk.Idom(); d != nil; d = d.Idom() {
		for i := len(d.Instrs) - 1; i >= 0; i-- {
			if isMutexCall(d.Instrs[i], mu, "Unlock", "RUnlock") {
				return false
			}
			if isMutexCall(d.Instrs[i], mu, names...) {
				return true
			}
		}
	}
	return false
}

func unlockOnAllPaths(fn *ssa.Function, blk *ssa.BasicBlock, idx int, mu *ssa.Global) bool {
	seen := map[*ssa.BasicBlock]bool{}
	var walk func(b *ssa.BasicBlock, from int) bool
	walk = func(b *ssa.BasicBlock, from int) bool {
		for i := from; i < len(b.Instrs); i++ {
			if isMutexCall(b.Instrs[i], mu, "Unlock", "RUnlock") {
				return true
			}
			switch b.Instrs[i].(type) {
			case *ssa.Return, *ssa.Panic:
				return false
			}
		}
		for _, s := range b.Succs {
			if seen[s] {
				continue
			}
			seen[s] = true
			if !walk(s, 0) {
				return false
			}
		}
		return true
	}
	return walk(blk, idx+1)
}

var _ = token.NoPos
