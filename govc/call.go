package main

import (
	"fmt"
	"go/types"
	"strings"

	"golang.org/x/tools/go/ssa"
)

// ---------------------------------------------------------------------------
// Calls

func (x *vc) ifaceContract(cc *ssa.CallCommon) *funcContract {
	// iface contracts are registered as  "func iface:<Type>.<Method>"
	recv := cc.Value.Type()
	name := "iface:" + types.TypeString(recv, func(p *types.Package) string { return "" }) + "." + cc.Method.Name()
	if n, ok := recv.(*types.Named); ok && n.Obj().Pkg() != nil {
		return x.p.cons.funcs[n.Obj().Pkg().Path()+".iface:"+n.Obj().Name()+"."+cc.Method.Name()]
	}
	_ = name
	return nil
}

func (x *vc) functypeContract(t types.Type) *funcContract {
	if n, ok := t.(*types.Named); ok && n.Obj().Pkg() != nil {
		return x.p.cons.funcs[n.Obj().Pkg().Path()+".functype:"+n.Obj().Name()]
	}
	return nil
}

func (x *vc) call(fr *frame, st *state, in ssa.CallInstruction, pos string) Val {
	cc := in.Common()
	x.curCall = in
	x.curTail = fr.top && isTailCall(in)
	var resT types.Type
	if v := in.Value(); v != nil {
		resT = v.Type()
	}
	var args []Val
	for _, a := range cc.Args {
		args = append(args, x.value(fr, st, a))
	}
	if cc.IsInvoke() {
		recv := x.value(fr, st, cc.Value)
		x.check(st, "nil", "invoke", not(eq(app("itag", recv.T), "0")), pos, "method call on nil interface")
		if ic := x.ifaceContract(cc); ic != nil {
			return x.applyContract(fr, st, ic, nil, cc.Method.Type().(*types.Signature), append([]Val{recv}, args...), []string{"recv"}, pos, "iface:"+cc.Method.Name(), resT)
		}
		if cc.Method.FullName() == "(reflect.Type).Kind" {
			x.needDecl("(declare-fun rtype_id (Iface) Int)")
			return Val{T: x.define("rtkind", sInt, app("kind_of_type", app("rtype_id", recv.T))), Typ: resT}
		}
		if cc.Method.FullName() == "(reflect.Type).Comparable" {
			// documented: false for slices, maps and functions (and for structs/arrays containing them); pure
			x.needDecl("(declare-fun rtype_id (Iface) Int)")
			x.trusted["reflect.Type.Comparable: true only for types whose kind is not Slice, Map or Func (documented); values of comparable struct/array/interface types are assumed hashable (they are unless they hold an unhashable dynamic value)"] = true
			r := x.freshVal("comparable", types.Typ[types.Bool], st)
			kd := app("kind_of_type", app("rtype_id", recv.T))
			x.assume(st.guard, implies(r.T, and(not(eq(kd, "19")), not(eq(kd, "21")), not(eq(kd, "23")))))
			return r
		}
		if strings.HasPrefix(cc.Method.FullName(), "(reflect.Type).") {
			// reflect.Type descriptors are immutable and their methods pure: no heap effect. Documented panic conditions
			// of the methods used in the repository are obligations.
			x.needDecl("(declare-fun rtype_id (Iface) Int)")
			x.needDecl("(declare-fun rt_numfield (Int) Int)")
			x.trusted["reflect.Type methods are pure (type descriptors are immutable); Field/NumField require a struct type and an in-range index (documented)"] = true
			id := app("rtype_id", recv.T)
			kd := app("kind_of_type", id)
			switch cc.Method.Name() {
			case "NumField":
				x.check(st, "rt:NumField", "", eq(kd, "25"), pos, "reflect.Type.NumField: the type must be a struct type")
				r := x.freshVal("rtnumfield", resT, st)
				x.assume(st.guard, and(app("<=", "0", r.T), eq(r.T, app("rt_numfield", id))))
				return r
			case "Field":
				x.check(st, "rt:Field", "", and(eq(kd, "25"), app("<=", "0", args[0].T), app("<", args[0].T, app("rt_numfield", id))), pos, "reflect.Type.Field: the type must be a struct type and the index in range")
			case "Elem":
				x.check(st, "rt:Elem", "", or(eq(kd, "17"), eq(kd, "18"), eq(kd, "21"), eq(kd, "22"), eq(kd, "23")), pos, "reflect.Type.Elem: the type must be an array, channel, map, pointer or slice type")
			case "Key":
				x.check(st, "rt:Key", "", eq(kd, "21"), pos, "reflect.Type.Key: the type must be a map type")
			case "Implements":
				// t.Implements(u): the method-set relation between the two described types; the same relation decides type
				// assertions to the interface type u (implements_I(tag) is rt_implements(tag, id of I))
				if len(args) == 1 && args[0].T != "" {
					x.check(st, "rt:Implements", "", and(not(eq(args[0].T, "(mkiface 0 0)")), eq(app("kind_of_type", app("rtype_id", args[0].T)), "20")), pos, "reflect.Type.Implements: the argument must be a non-nil interface type")
					r := x.define("rtimpl", sBool, app("rt_implements", id, app("rtype_id", args[0].T)))
					return Val{T: r, Typ: resT}
				}
			case "In", "Out", "NumIn", "NumOut", "IsVariadic":
				x.check(st, "rt:"+cc.Method.Name(), "", eq(kd, "19"), pos, "reflect.Type."+cc.Method.Name()+": the type must be a function type (index range: not modelled)")
			}
			r := x.freshResult(st, resT, "rt_"+cc.Method.Name())
			if _, isIface := resT.Underlying().(*types.Interface); isIface && r.T != "" {
				x.assume(st.guard, not(eq(app("itag", r.T), "0")))
			}
			x.recordNamedResult(fr, "reflect.Type."+cc.Method.Name(), r, st.guard) // ret("reflect.Type.Field#0", 0)
			return r
		}
		x.havocCall(st, resT, "interface method "+cc.Method.FullName(), true)
		return x.freshResult(st, resT, "invoke_"+cc.Method.Name())
	}
	if b, ok := cc.Value.(*ssa.Builtin); ok {
		return x.builtin(fr, st, b, cc, args, resT, pos)
	}
	callee := cc.StaticCallee()
	var binds []Val
	if callee == nil {
		fv := x.value(fr, st, cc.Value)
		if fv.Fn != nil {
			callee = fv.Fn
			binds = fv.Bind
		}
	} else if mc, ok := cc.Value.(*ssa.MakeClosure); ok {
		binds = x.value(fr, st, mc).Bind
	}
	if callee == nil {
		// dynamic call through a function value
		if ft := x.functypeContract(cc.Value.Type()); ft != nil {
			sig := cc.Value.Type().Underlying().(*types.Signature)
			fv := x.value(fr, st, cc.Value)
			if fv.T != "" {
				x.check(st, "nil", "funcvalue", not(eq(fv.T, "0")), pos, "call of nil function value")
				x.pendingSelf = &fv
			}
			tn := cc.Value.Type().String()
			if k := strings.LastIndex(tn, "."); k >= 0 {
				tn = tn[k+1:]
			}
			return x.applyContract(fr, st, ft, nil, sig, args, nil, pos, "functype:"+tn, resT)
		}
		fv := x.value(fr, st, cc.Value)
		if fv.T != "" {
			x.check(st, "nil", "funcvalue", not(eq(fv.T, "0")), pos, "call of nil function value")
		}
		// a function variable assigned one of several repository functions under contract (var f func(..); switch { case
		// ..: f = g; case ..: f = h }; f(..)): the preconditions of each candidate are obligations in the case that it is
		// the one called, and its postconditions on the results are known in that case. The heap is havocked as for
		// any dynamic call.
		cands := x.phiFuncCandidates(cc.Value)
		var candRes []Val
		if fv.T != "" {
			for _, f := range cands {
				fc := x.p.cons.get(fnKey(f))
				st2 := st.clone()
				st2.guard = and(st.guard, eq(fv.T, x.value(fr, st, f).T))
				x.calleesByContract[fnKey(f)] = true
				var names []string
				for _, p := range f.Params {
					names = append(names, p.Name())
				}
				r := x.applyContract(fr, st2, fc, f, f.Signature, args, names, pos, shortFn(f), resT)
				candRes = append(candRes, r)
			}
		}
		x.havocCall(st, resT, "dynamic call", true)
		res := x.freshResult(st, resT, "dyncall")
		for i, f := range cands {
			if i >= len(candRes) {
				break
			}
			g := and(st.guard, eq(fv.T, x.value(fr, st, f).T))
			a, b := append([]Val{res}, res.Tuple...), append([]Val{candRes[i]}, candRes[i].Tuple...)
			for k := range a {
				if k < len(b) && a[k].T != "" && b[k].T != "" {
					x.assume(g, eq(a[k].T, b[k].T))
				}
			}
		}
		return res
	}
	return x.callStatic(fr, st, callee, binds, args, resT, pos)
}

func (x *vc) freshResult(st *state, resT types.Type, hint string) Val {
	if resT == nil {
		return Val{}
	}
	if tup, ok := resT.(*types.Tuple); ok {
		if tup.Len() == 0 {
			return Val{}
		}
		var vs []Val
		for i := 0; i < tup.Len(); i++ {
			vs = append(vs, x.freshVal(hint, tup.At(i).Type(), st))
		}
		return Val{Tuple: vs, Typ: resT}
	}
	return x.freshVal(hint, resT, st)
}

func (x *vc) havocCall(st *state, resT types.Type, what string, writes bool) {
	if writes {
		var pre *state
		if x.topFC != nil && len(x.topFC.preserves) > 0 {
			pre = st.clone()
		}
		x.havoc(st, &modSet{all: true}, "call to "+what+" without contract")
		if pre != nil {
			x.preserveObjects(nil, pre, st)
		}
		if st.nextRef != "" {
			nr := x.freshName("nextRef")
			x.declare(nr, sInt)
			x.assume("true", app(">=", nr, st.nextRef))
			st.nextRef = nr
		}
	}
}

func (x *vc) onStack(fn *ssa.Function) bool {
	for _, f := range x.stack {
		if f == fn {
			return true
		}
	}
	return false
}

func (x *vc) callStatic(fr *frame, st *state, callee *ssa.Function, binds []Val, args []Val, resT types.Type, pos string) Val {
	key := fnKey(callee)
	fc := x.p.cons.get(key)
	if fc != nil && !fc.inline {
		x.calleesByContract[key] = true
		var names []string
		for _, p := range callee.Params {
			names = append(names, p.Name())
		}
		x.pendingBinds = binds
		return x.applyContract(fr, st, fc, callee, callee.Signature, args, names, pos, shortFn(callee), resT)
	}
	extGuard := st.guard
	if !isRepoFn(callee) {
		x.externalCallClauses(fr, st, callee, args, pos)
	}
	if v, ok := x.stdlibModel(fr, st, callee, args, resT, pos); ok {
		if !isRepoFn(callee) {
			x.recordExternalResult(fr, callee, v, extGuard)
		}
		return v
	}
	if !isRepoFn(callee) {
		// external function without a model: result unconstrained, assumed to terminate without panicking
		x.trusted["external "+callee.String()+": assumed total, result unconstrained"] = true
		if x.externalWrites(callee) {
			x.havocCall(st, resT, callee.String(), true)
			// documented: decoding JSON into an interface{} stores nil, bool, float64, string, []interface{} or
			// map[string]interface{} - in particular never a reflect.Value
			if nm := callee.String(); (nm == "encoding/json.Unmarshal" || nm == "(*encoding/json.Decoder).Decode") && len(args) >= 2 {
				tgt := args[len(args)-1]
				if tgt.T != "" && x.srt.sortOf(tgt.Typ) == sIface {
					cn, cs := x.cellArr(st, types.NewInterfaceType(nil, nil))
					cell := app("select", x.heapArr(st, cn, cs), app("ival", tgt.T))
					for _, pk := range x.p.prog.AllPackages() {
						if pk.Pkg.Path() == "reflect" {
							if tn, ok := pk.Pkg.Scope().Lookup("Value").(*types.TypeName); ok {
								x.trusted["encoding/json: decoding into an interface{} never stores a reflect.Value (documented set of result types)"] = true
								x.assume(st.guard, not(eq(app("itag", cell), smtInt(int64(x.srt.typeID(tn.Type()))))))
							}
						}
					}
				}
			}
		}
		r := x.freshResult(st, resT, "ext_"+callee.Name())
		x.recordExternalResult(fr, callee, r, extGuard)
		// library functions do not return interface values holding typed nil pointers (e.g. a non-nil error has a non-nil payload)
		for _, c := range append([]Val{r}, r.Tuple...) {
			if c.T != "" && c.Typ != nil && x.srt.sortOf(c.Typ) == sIface {
				x.assume(st.guard, implies(not(eq(app("itag", c.T), "0")), not(eq(app("ival", c.T), "0"))))
			}
		}
		return r
	}
	x.nInlined++
	if x.onStack(callee) || len(x.stack) >= x.maxInline || x.nInlined > 120 || len(x.decls) > 40000 {
		x.note("call to %s: recursion, inline depth or VC size budget exceeded without contract: havoc", key)
		x.havocCall(st, resT, key, true)
		return x.freshResult(st, resT, "rec_"+callee.Name())
	}
	// inline
	x.inlined[key] = true
	sub := x.newFrame(callee, fr.depth+1)
	for i, p := range callee.Params {
		if i < len(args) {
			a := args[i]
			if a.LV != nil && a.LV.arr != "" {
				// interior pointer passed to an inlined callee: keep as lvalue
			}
			sub.vals[p] = a
			sub.params[p.Name()] = a
		}
	}
	for i, fv := range callee.FreeVars {
		if i < len(binds) {
			sub.vals[fv] = binds[i]
			sub.freeVars[fv.Name()] = binds[i]
		}
	}
	x.stack = append(x.stack, callee)
	sub.fc = fc
	if fc == nil {
		sub.fc = x.p.cons.get(key)
	}
	// inside an inlined call in tail position the objects handed to it are no longer private to the caller
	savedTailInline := x.tailInline
	if x.curTail {
		x.tailInline = true
	}
	res := x.execBody(sub, st)
	x.tailInline = savedTailInline
	x.stack = x.stack[:len(x.stack)-1]
	if res.noRet {
		st.guard = "false"
		return x.freshResult(st, resT, "noret")
	}
	// continue in the merged exit state
	st.heap = res.st.heap
	st.guard = res.st.guard
	st.nextRef = res.st.nextRef
	if resT == nil {
		return Val{}
	}
	if tup, ok := resT.(*types.Tuple); ok {
		if tup.Len() == 0 {
			return Val{}
		}
		return Val{Tuple: res.vals, Typ: resT}
	}
	if len(res.vals) == 1 {
		return res.vals[0]
	}
	return Val{}
}

func shortFn(fn *ssa.Function) string {
	var s string
	if fn.Pkg == nil {
		s = fn.String()
		if k := strings.LastIndex(s, "/"); k >= 0 {
			s = s[k+1:]
		}
	} else {
		s = fn.RelString(fn.Pkg.Pkg)
	}
	s = strings.NewReplacer("(*", "", ")", "", "(", "").Replace(s)
	return s
}

// copyIn materialises an interior struct lvalue as a temporary object so that it can be passed by pointer
func (x *vc) copyIn(st *state, a Val) (Val, func()) {
	if a.LV == nil || a.LV.arr == "" {
		return a, func() {}
	}
	pt, ok := a.Typ.Underlying().(*types.Pointer)
	if !ok || !isStructObj(pt.Elem()) {
		// interior pointer to a scalar: pass through a temporary cell
		et := a.LV.typ
		r := x.alloc(st, "tmpcell")
		name, _ := x.cellArr(st, et)
		x.storeLV(st, &lvalue{arr: name, ref: r}, x.loadLV(st, a.LV))
		lv := a.LV
		return Val{T: r, Typ: a.Typ}, func() {
			x.storeLV(st, lv, x.loadLV(st, &lvalue{arr: name, ref: r}))
		}
	}
	r := x.alloc(st, "tmpobj")
	x.storeStruct(st, r, pt.Elem(), x.loadLV(st, a.LV))
	lv := a.LV
	return Val{T: r, Typ: a.Typ}, func() {
		x.storeLV(st, lv, x.loadStruct(st, r, pt.Elem()))
	}
}

// applyContract: check requires, havoc assigns, assume ensures
func (x *vc) applyContract(fr *frame, st *state, fc *funcContract, callee *ssa.Function, sig *types.Signature, args []Val, names []string, pos, what string, resT types.Type) Val {
	var copyOuts []func()
	callGuard := st.guard
	for i := range args {
		a, out := x.copyIn(st, args[i])
		args[i] = a
		copyOuts = append(copyOuts, out)
	}
	env := &cenv{x: x, vars: map[string]Val{}, st: st, old: st, pkg: x.pkgOf(fc)}
	if x.pendingSelf != nil {
		env.vars["self"] = *x.pendingSelf // the function value being called (function-type contracts)
		x.pendingSelf = nil
	} else if callee != nil {
		env.vars["self"] = x.value(fr, st, callee)
	}
	for i, a := range args {
		if i < len(names) && names[i] != "" && names[i] != "_" {
			env.vars[names[i]] = a
		}
		env.vars[fmt.Sprintf("arg%d", i)] = a
	}
	// a closure under contract: its captured variables under their source names (held by address)
	if callee != nil && len(x.pendingBinds) == len(callee.FreeVars) {
		for i, fv := range callee.FreeVars {
			b := x.pendingBinds[i]
			if _, isPtr := fv.Type().Underlying().(*types.Pointer); isPtr && b.T != "" {
				env.vars[fv.Name()] = x.load(st, b)
				if env.fvCells == nil {
					env.fvCells = map[string]Val{}
				}
				env.fvCells[fv.Name()] = b // read in the state of evaluation: the pre-state in requires and old(..), the post-state in ensures
			} else {
				env.vars[fv.Name()] = b
			}
		}
	}
	x.pendingBinds = nil
	aliasRenamed(callee, env) // a renamed parameter or captured variable keeps the name the contract was written with
	for k, r := range fc.requires {
		if r.tag == "lemma" {
			continue // derived inside the callee's own verification
		}
		g := x.evalBool(env, r.expr)
		tag := what
		if r.tag != "" {
			tag += "." + r.tag
		}
		o := x.oblige(st, "pre", tag, g, pos, fmt.Sprintf("precondition %d of %s: %s", k, what, r.text), false)
		_ = o
		x.assume(st.guard, g)
	}
	// `atcall callee#k requires e`: a caller-side obligation on the arguments of its k-th call to callee, written
	// over the callee's parameter names and the caller's own variables (used for "which sub-parse with which
	// binding power / lexer mode" clauses that a postcondition cannot see)
	if fr.top && x.topFC != nil && len(x.topFC.atcalls) > 0 {
		ord := x.callOrd[what]
		if x.callOrd == nil {
			x.callOrd = map[string]int{}
		}
		x.callOrd[what] = ord + 1
		for _, ac := range x.topFC.atcalls {
			if ac.callee != what || ac.ordinal != ord {
				continue
			}
			cenv2 := x.contractEnv(fr, st, nil)
			for k, v := range env.vars {
				if _, shadow := cenv2.vars[k]; !shadow || k == "self" {
					cenv2.vars[k] = v
				}
			}
			// callee parameter names win over caller names of the same spelling only when prefixed: callee.<name>
			for k, v := range env.vars {
				cenv2.vars["callee_"+k] = v
			}
			g := x.evalBool(cenv2, ac.cl.expr)
			detail := fmt.Sprintf("%s#%d", what, ord)
			if ac.cl.tag != "" {
				detail += "." + ac.cl.tag
			}
			x.oblige(st, "callarg", detail, g, pos, "argument clause for this call: "+ac.cl.text, false)
			ac.seen = true
		}
	}
	if fc.panics != "" {
		declared := ""
		if x.topFC != nil {
			declared = x.topFC.panics
			if declared == "" {
				declared = x.topFC.recovers
			}
		}
		if declared != fc.panics {
			x.oblige(st, "panic-propagation", what, "false", pos, fmt.Sprintf("callee %s may panic with %s but the caller does not declare it", what, fc.panics), true)
		}
	}
	// termination of (mutual) recursion: the callee's measure at the call is lexicographically below the
	// measure of the function under verification at its entry
	if len(fc.fdecr) > 0 && x.topFC != nil && len(x.topFC.fdecr) > 0 && len(x.entryMeasure) == len(fc.fdecr) && fc.decrGroup == x.topFC.decrGroup {
		var cm []string
		for _, d := range fc.fdecr {
			cm = append(cm, x.evalInt(env, d.expr))
		}
		goal := "false"
		for i := len(cm) - 1; i >= 0; i-- {
			lt := app("<", cm[i], x.entryMeasure[i])
			if i == len(cm)-1 {
				goal = lt
			} else {
				goal = or(app("<", cm[i], x.entryMeasure[i]), and(eq(cm[i], x.entryMeasure[i]), goal))
			}
		}
		goal = and(app("<=", "0", cm[0]), goal)
		x.oblige(st, "rec-variant", what, goal, pos, "termination: measure of "+what+" at this call is lexicographically below the caller's entry measure", false)
	}
	pre := st.clone()
	// havoc assigns
	if fc.assigns == nil && !fc.pure {
		x.havocCall(st, resT, what+" (no assigns clause)", true)
	} else {
		mod := &modSet{}
		for _, a := range fc.assigns {
			x.assignsTargets(env, a, mod)
		}
		x.havoc(st, mod, "assigns of "+what)
		if st.nextRef != "" {
			nr := x.freshName("nextRef")
			x.declare(nr, sInt)
			x.assume("true", app(">=", nr, st.nextRef))
			st.nextRef = nr
		}
		if mod.all && x.topFC != nil && len(x.topFC.preserves) > 0 {
			x.preserveObjects(fr, pre, st)
		}
	}
	if fc.noreturn {
		st.guard = "false"
		return x.freshResult(st, resT, "noret")
	}
	res := x.freshResult(st, resT, "r_"+mangle(what))
	post := &cenv{x: x, vars: map[string]Val{}, st: st, old: pre, pkg: env.pkg, fvCells: env.fvCells}
	for k, v := range env.vars {
		post.vars[k] = v
	}
	x.bindResults(post, sig, res)
	for _, e := range fc.ensures {
		if strings.Contains(e.text, "ret(") || e.tag == "ghost" {
			// a postcondition phrased over the callee's own inner calls means nothing at its call sites: not assumed there
			continue
		}
		if dropTaggedPostsFor != "" {
			// dependency analysis (GOVC_DROP_TAGGED_POSTS=Cnn): which obligations of property Cnn rest on postconditions
			// that are claimed for other properties only? Those are not assumed in this mode; what then fails shows it.
			if p := tagProp(e.tag); p != "" && !propMatch(p, dropTaggedPostsFor) {
				continue
			}
		}
		x.assume(st.guard, x.evalBool(post, e.expr))
	}
	for _, out := range copyOuts {
		out()
	}
	// what a callee returns cannot be one of the caller's local objects (no callee can reach them: localobj.go).
	// Skipped when the contract declares `owned` locals (call results that are then treated as local objects).
	if fr.top && x.hasLocal && x.topFC != nil && len(x.topFC.owned) == 0 {
		for _, c := range append([]Val{res}, res.Tuple...) {
			if c.T == "" || c.Typ == nil {
				continue
			}
			switch x.srt.sortOf(c.Typ) {
			case sRV:
				x.assume(st.guard, not(localAny(app("ival", app("rv_iface", c.T)))))
			case sIface:
				x.assume(st.guard, not(localAny(app("ival", c.T))))
			case sSlice:
				x.assume(st.guard, not(localAny(app("sl_arr", c.T))))
			case sInt:
				switch c.Typ.Underlying().(type) {
				case *types.Pointer, *types.Map:
					x.assume(st.guard, not(localAny(c.T)))
				}
			}
		}
	}
	// results of the k-th call to a callee, for use in the caller's postconditions: ret(callee#k, i)
	if fr.top || len(x.stack) <= 3 {
		if x.callRes == nil {
			x.callRes = map[string]Val{}
			x.callResOrd = map[string]int{}
		}
		k := x.callResOrd[what]
		x.callResOrd[what] = k + 1
		x.callRes[fmt.Sprintf("%s#%d", what, k)] = res
		if fr.top {
			x.countCall(st, fmt.Sprintf("%s#%d", what, k))
		}
		if x.callGuard == nil {
			x.callGuard = map[string]string{}
		}
		x.callGuard[fmt.Sprintf("%s#%d", what, k)] = callGuard
	}
	return res
}

// preserveObjects: the function under verification declares `preserves p`: calls that may write anywhere in the
// heap (assigns heap) do not write the object p points to nor the backing arrays of its slice fields. This is
// the tree-shape (acyclicity) assumption of recursive walks, stated per function and reported as an assumption.
func (x *vc) preserveObjects(fr *frame, pre, st *state) {
	for _, name := range x.topFC.preserves {
		var pv Val
		found := false
		for _, prm := range x.top.Params {
			if prm.Name() == name {
				if f0 := x.topFrame; f0 != nil {
					pv, found = f0.vals[prm], true
				}
			}
		}
		if !found || pv.T == "" {
			continue
		}
		pt, ok := pv.Typ.Underlying().(*types.Pointer)
		if !ok || !isStructObj(pt.Elem()) {
			continue
		}
		s := pt.Elem().Underlying().(*types.Struct)
		for i := 0; i < s.NumFields(); i++ {
			an, as, ft := x.fieldArr(st, pt.Elem(), i)
			oldA := x.heapArr(pre, an, as)
			newA := x.heapArr(st, an, as)
			x.assume(st.guard, eq(app("select", newA, pv.T), app("select", oldA, pv.T)))
			if sl, ok := ft.Underlying().(*types.Slice); ok {
				en, es := x.elemArr(st, sl.Elem())
				arr := app("sl_arr", app("select", oldA, pv.T))
				x.assume(st.guard, eq(app("select", x.heapArr(st, en, es), arr), app("select", x.heapArr(pre, en, es), arr)))
			}
		}
	}
	x.trusted["tree shape: a function declaring `preserves p` assumes that callees which may write anywhere do not write *p or the backing arrays of its slice fields (the syntax tree is acyclic; children do not reach their parent)"] = true
}

func (x *vc) bindResults(env *cenv, sig *types.Signature, res Val) {
	n := sig.Results().Len()
	if n == 1 {
		env.vars["result"] = res
		env.vars["r0"] = res
		if nm := sig.Results().At(0).Name(); nm != "" && nm != "_" {
			env.vars[nm] = res
		}
		return
	}
	for i := 0; i < n && i < len(res.Tuple); i++ {
		env.vars[fmt.Sprintf("r%d", i)] = res.Tuple[i]
		if nm := sig.Results().At(i).Name(); nm != "" && nm != "_" {
			env.vars[nm] = res.Tuple[i]
		}
	}
}

func (x *vc) pkgOf(fc *funcContract) *types.Package {
	if sp, ok := x.p.spkgs[fc.pkg]; ok {
		return sp.Pkg
	}
	return x.top.Pkg.Pkg
}

// assignsTargets evaluates an assigns clause into concrete heap locations
func (x *vc) assignsTargets(env *cenv, a *clause, mod *modSet) {
	e := a.expr
	if e.op == "id" && e.name == "heap" {
		mod.all = true
		return
	}
	if e.op == "call" && e.name == "elems" && len(e.args) == 1 {
		v := x.eval(env, e.args[0])
		if sl, ok := v.Typ.Underlying().(*types.Slice); ok {
			name, _ := x.elemArr(env.st, sl.Elem())
			mod.add(name, app("sl_arr", v.T))
			return
		}
	}
	root := e
	for root.op == "sel" && root.args[0].op == "sel" {
		// nested value-struct field: the root field is what gets havocked
		base := x.eval(env, root.args[0].args[0])
		if _, isPtr := base.Typ.Underlying().(*types.Pointer); isPtr {
			root = root.args[0]
			continue
		}
		break
	}
	if root.op == "sel" {
		base := x.eval(env, root.args[0])
		if pt, ok := base.Typ.Underlying().(*types.Pointer); ok {
			if s, ok := pt.Elem().Underlying().(*types.Struct); ok {
				for k := 0; k < s.NumFields(); k++ {
					if s.Field(k).Name() == root.name {
						name, _, _ := x.fieldArr(env.st, pt.Elem(), k)
						mod.add(name, base.T)
						return
					}
				}
			}
		}
	}
	if root.op == "call" && root.name == "deref" && len(root.args) == 1 {
		base := x.eval(env, root.args[0])
		if mt, ok := base.Typ.Underlying().(*types.Map); ok {
			// the entries of one map object
			d, v, l := x.mapArrs(env.st, mt)
			mod.add(d, base.T)
			mod.add(v, base.T)
			mod.add(l, base.T)
			return
		}
		if pt, ok := base.Typ.Underlying().(*types.Pointer); ok {
			if isStructObj(pt.Elem()) {
				s := pt.Elem().Underlying().(*types.Struct)
				for k := 0; k < s.NumFields(); k++ {
					name, _, _ := x.fieldArr(env.st, pt.Elem(), k)
					mod.add(name, base.T)
				}
			} else {
				name, _ := x.cellArr(env.st, pt.Elem())
				mod.add(name, base.T)
			}
			return
		}
	}
	x.note("assigns clause %q not understood: havoc all", a.text)
	mod.all = true
}

// ---------------------------------------------------------------------------
// Builtins

func (x *vc) builtin(fr *frame, st *state, b *ssa.Builtin, cc *ssa.CallCommon, args []Val, resT types.Type, pos string) Val {
	switch b.Name() {
	case "len":
		a := args[0]
		switch a.Typ.Underlying().(type) {
		case *types.Basic:
			return Val{T: app("slen", a.T), Typ: resT}
		case *types.Slice:
			return Val{T: app("sl_len", a.T), Typ: resT}
		case *types.Array:
			return Val{T: smtInt(a.Typ.Underlying().(*types.Array).Len()), Typ: resT}
		case *types.Map:
			_, _, l := x.mapArrs(st, a.Typ.Underlying().(*types.Map))
			v := Val{T: x.define("maplen", sInt, ite(eq(a.T, "0"), "0", app("select", st.heap[l], a.T))), Typ: resT}
			x.assume(st.guard, and(app("<=", "0", v.T), app("<=", v.T, "2305843009213693952"))) // machine assumption shared with strings and slices: a length fits the address space
			return v
		case *types.Pointer:
			if at, ok := a.Typ.Underlying().(*types.Pointer).Elem().Underlying().(*types.Array); ok {
				return Val{T: smtInt(at.Len()), Typ: resT}
			}
		}
	case "cap":
		a := args[0]
		if _, ok := a.Typ.Underlying().(*types.Slice); ok {
			return Val{T: app("sl_cap", a.T), Typ: resT}
		}
	case "append":
		return x.appendOp(st, args, resT)
	case "copy":
		dst := args[0]
		if sl, ok := dst.Typ.Underlying().(*types.Slice); ok {
			name, srt := x.elemArr(st, sl.Elem())
			// contents of dst's backing array are havocked
			n := x.freshName(name + "_copy")
			x.declare(n, "(Array Int "+x.srt.sortOf(sl.Elem())+")")
			st.heap[name] = x.define(name, srt, app("store", x.heapArr(st, name, srt), app("sl_arr", dst.T), n))
		}
		r := x.freshVal("copied", resT, st)
		x.assume(st.guard, and(app("<=", "0", r.T), app("<=", r.T, app("sl_len", dst.T))))
		return r
	case "delete":
		m := args[0]
		mt := m.Typ.Underlying().(*types.Map)
		d, _, l := x.mapArrs(st, mt)
		dk := x.mapKey(mt, args[1].T)
		had := and(not(eq(m.T, "0")), app("select", app("select", st.heap[d], m.T), dk))
		st.heap[l] = x.define(l, x.heapSorts[l], ite(had, app("store", st.heap[l], m.T, app("-", app("select", st.heap[l], m.T), "1")), st.heap[l]))
		st.heap[d] = x.define(d, x.heapSorts[d], ite(eq(m.T, "0"), st.heap[d], app("store", st.heap[d], m.T, app("store", app("select", st.heap[d], m.T), dk, "false"))))
		return Val{}
	case "recover":
		r := x.freshVal("recovered", resT, st)
		// in a deferred closure of a function that declares `recovers T`: every panic raised in that function's
		// dynamic extent carries a T (this is what the panic-type / panic-propagation obligations of the
		// functions it calls establish), so recover yields nil or a non-nil T
		if parent := x.top.Parent(); parent != nil {
			if pfc := x.p.cons.get(fnKey(parent)); pfc != nil && pfc.recovers != "" {
				if t := x.lookupType(parent.Pkg.Pkg, pfc.recovers); t != nil {
					isT := eq(app("itag", r.T), smtInt(int64(x.srt.typeID(t))))
					if strings.HasPrefix(pfc.recovers, "*") {
						isT = and(isT, not(eq(app("ival", r.T), "0")))
					}
					x.assume(st.guard, or(eq(r.T, "(mkiface 0 0)"), isT))
					x.trusted["recover() in "+fnKey(x.top)+": the recovered value is nil or a "+pfc.recovers+" (meta-argument: all panics in the dynamic extent of "+fnKey(parent)+" are shown to carry that type)"] = true
				}
			}
		}
		return r
	case "print", "println":
		return Val{}
	case "min", "max":
		if len(args) == 2 && x.srt.sortOf(resT) == sInt {
			if b.Name() == "min" {
				return Val{T: ite(app("<=", args[0].T, args[1].T), args[0].T, args[1].T), Typ: resT}
			}
			return Val{T: ite(app(">=", args[0].T, args[1].T), args[0].T, args[1].T), Typ: resT}
		}
	}
	x.note("builtin %s not modelled: result havoc", b.Name())
	return x.freshResult(st, resT, "builtin_"+b.Name())
}

// append(s, elems...) : args[1] is the variadic slice (or a string for append([]byte, string...))
func (x *vc) appendOp(st *state, args []Val, resT types.Type) Val {
	s := args[0]
	sl := resT.Underlying().(*types.Slice)
	name, srt := x.elemArr(st, sl.Elem())
	es := x.srt.sortOf(sl.Elem())
	var addLen string
	isStr := false
	if _, ok := args[1].Typ.Underlying().(*types.Basic); ok {
		addLen = app("slen", args[1].T)
		isStr = true
	} else {
		addLen = app("sl_len", args[1].T)
	}
	newLen := x.define("applen", sInt, app("+", app("sl_len", s.T), addLen))
	fits := app("<=", newLen, app("sl_cap", s.T))
	// result: same backing array if it fits, fresh otherwise
	fresh := x.alloc(st, "appendbuf")
	arr := x.define("apparr", sInt, ite(fits, app("sl_arr", s.T), fresh))
	// the offset as a named constant (an ite inside a trigger makes the solvers drop the trigger)
	off := x.freshName("appoff")
	x.declare(off, sInt)
	x.assume("true", eq(off, ite(fits, app("sl_off", s.T), "0")))
	capv := x.freshName("appcap")
	x.declare(capv, sInt)
	x.assume("true", and(app(">=", capv, newLen), implies(fits, eq(capv, app("sl_cap", s.T)))))
	r := Val{T: x.define("appended", sSlice, app("mkslice", arr, off, newLen, capv)), Typ: resT}
	// contents: the new backing content agrees with the old on [0,len(s)) and holds the appended elements after
	cur := x.heapArr(st, name, srt)
	newContent := x.freshName("appcontent")
	x.declare(newContent, "(Array Int "+es+")")
	j := fmt.Sprintf("aj!%d", x.fresh)
	oldOff := app("sl_off", s.T)
	var appended string
	if isStr {
		appended = app("sbyte", args[1].T, app("-", j, app("sl_len", s.T)))
	} else {
		appended = app("select", app("select", cur, app("sl_arr", args[1].T)), app("+", app("sl_off", args[1].T), app("-", j, app("sl_len", s.T))))
	}
	if x.topFC != nil && x.topFC.preciseAppend {
		// quantified content facts are only generated where a contract asks for them: they make "sat" answers
		// (counterexamples) and many unrelated goals much harder for the solvers
		x.assume(st.guard, fmt.Sprintf("(forall ((%s Int)) (! (=> (and (<= 0 %s) (< %s %s)) (= (select %s (+ %s %s)) (ite (< %s (sl_len %s)) (select (select %s (sl_arr %s)) (+ %s %s)) %s))) :pattern ((select %s (+ %s %s)))))",
			j, j, j, newLen, newContent, off, j, j, s.T, cur, s.T, oldOff, j, appended, newContent, off, j))
		// when appending in place, locations outside [off+len(s), off+newLen) are unchanged
		k := fmt.Sprintf("ak!%d", x.fresh)
		x.assume(and(st.guard, fits), fmt.Sprintf("(forall ((%s Int)) (! (=> (or (< %s (+ %s (sl_len %s))) (>= %s (+ %s %s))) (= (select %s %s) (select (select %s (sl_arr %s)) %s))) :pattern ((select %s %s))))",
			k, k, oldOff, s.T, k, oldOff, newLen, newContent, k, cur, s.T, k, newContent, k))
	}
	st.heap[name] = x.define(name, srt, app("store", cur, arr, newContent))
	return r
}

// ---------------------------------------------------------------------------
// Models of standard-library functions (trusted specs)

func (x *vc) stdlibModel(fr *frame, st *state, callee *ssa.Function, args []Val, resT types.Type, pos string) (Val, bool) {
	name := callee.String()
	intT := types.Typ[types.Int]
	if v, ok := x.reflectModel(fr, st, callee, args, resT, pos); ok {
		return v, true
	}
	switch name {
	case "sort.SliceStable", "sort.Slice":
		// sort.Slice[Stable](s, less): calls less(i, j) with 0 <= i, j < len(s) on permutations of s and leaves s a
		// permutation of its elements (stable: trusted). A less closure under contract must accept every such call:
		// its preconditions are obligations for arbitrary in-range i, j on an arbitrary permutation.
		x.trusted["sort.Slice/SliceStable: permutes the slice using only less(i, j) with indices in range; stable sorting proper is the library's"] = true
		var slT *types.Slice
		var sl Val
		if x.curCall != nil && len(x.curCall.Common().Args) == 2 {
			if mi, ok := x.curCall.Common().Args[0].(*ssa.MakeInterface); ok {
				if slT, _ = mi.X.Type().Underlying().(*types.Slice); slT != nil {
					sl = x.value(fr, st, mi.X)
				}
			}
		}
		if slT == nil || sl.T == "" {
			return Val{}, false
		}
		arrName, arrSort := x.elemArr(st, slT.Elem())
		old := x.heapArr(st, arrName, arrSort)
		// permutation: same multiset is not expressible cheaply; what contracts use is: every element is an old element
		// and every old element is still present (pi, its inverse: uninterpreted index maps)
		x.havoc(st, &modSet{arrays: map[string][]string{arrName: {app("sl_arr", sl.T)}}}, "sort.Slice permutes the slice")
		cur := st.heap[arrName]
		pi, inv := x.freshName("perm"), x.freshName("perminv")
		x.decls = append(x.decls, fmt.Sprintf("(declare-fun %s (Int) Int)", pi), fmt.Sprintf("(declare-fun %s (Int) Int)", inv))
		elem := func(arr, k string) string {
			return app("select", app("select", arr, app("sl_arr", sl.T)), app("+", app("sl_off", sl.T), k))
		}
		x.assume(st.guard, fmt.Sprintf("(forall ((k Int)) (! (=> (and (<= 0 k) (< k (sl_len %s))) (and (<= 0 (%s k)) (< (%s k) (sl_len %s)) (= (%s (%s k)) k) (= %s %s))) :pattern ((%s k)) :pattern (%s)))",
			sl.T, pi, pi, sl.T, inv, pi, elem(cur, "k"), elem(old, "("+pi+" k)"), pi, elem(cur, "k")))
		x.assume(st.guard, fmt.Sprintf("(forall ((k Int)) (! (=> (and (<= 0 k) (< k (sl_len %s))) (and (<= 0 (%s k)) (< (%s k) (sl_len %s)) (= (%s (%s k)) k))) :pattern ((%s k))))",
			sl.T, inv, inv, sl.T, pi, inv, inv))
		less := args[1]
		if less.Fn != nil {
			if fc := x.p.cons.get(fnKey(less.Fn)); fc != nil {
				i := x.freshVal("sort_i", intT, st)
				j := x.freshVal("sort_j", intT, st)
				pre := st.clone()
				pre.guard = and(st.guard, app("<=", "0", i.T), app("<", i.T, app("sl_len", sl.T)), app("<=", "0", j.T), app("<", j.T, app("sl_len", sl.T)))
				x.pendingBinds = less.Bind
				x.calleesByContract[fnKey(less.Fn)] = true
				x.applyContract(fr, pre, fc, less.Fn, less.Fn.Signature, []Val{i, j}, []string{less.Fn.Params[0].Name(), less.Fn.Params[1].Name()}, pos, shortFn(less.Fn), types.Typ[types.Bool])
			} else {
				x.note("sort.Slice: less function %s has no contract: its calls are not checked", fnKey(less.Fn))
			}
		}
		return Val{}, true
	case "unicode/utf8.DecodeRuneInString":
		s := args[0]
		for k := 0; k < 4; k++ {
			x.byteRange(st, app("sbyte", s.T, smtInt(int64(k))))
		}
		r := x.define("rune", sInt, app("str_rune", s.T, "0"))
		w := x.define("width", sInt, app("str_width", s.T, "0"))
		x.trusted["unicode/utf8.DecodeRuneInString: exact UTF-8 decoding table (prelude u8rune/u8width)"] = true
		return Val{Tuple: []Val{{T: r, Typ: types.Typ[types.Rune]}, {T: w, Typ: intT}}, Typ: resT}, true
	case "unicode/utf8.DecodeLastRuneInString", "unicode/utf8.DecodeLastRune":
		// documented: (RuneError, 0) for an empty string, otherwise a width between 1 and 4 that does not exceed the length
		// (RuneError, 1 for an invalid encoding); the rune value itself is left unconstrained
		r := x.freshResult(st, resT, "lastrune")
		if len(r.Tuple) == 2 {
			n := app("slen", args[0].T)
			if x.srt.sortOf(args[0].Typ) == sSlice {
				n = app("sl_len", args[0].T)
			}
			w := r.Tuple[1].T
			x.trusted["unicode/utf8.DecodeLastRuneInString: width 0 for the empty string, else 1..4 and at most the length"] = true
			x.assume(st.guard, and(eq(eq(w, "0"), eq(n, "0")), app("<=", "0", w), app("<=", w, "4"), app("<=", w, n), app("<=", "0", r.Tuple[0].T), app("<=", r.Tuple[0].T, "1114111")))
		}
		return r, true
	case "strings.IndexFunc", "strings.LastIndexFunc":
		// -1 or the byte offset of a code point of s (the predicate is called on runes of s only; its results are not
		// related to the offset here)
		// The first and the last offset for the same string and the same predicate (a pure function of the rune) are
		// related: both -1 or first <= last.
		x.needDecl("(declare-fun str_firstfn (Str Int) Int)")
		x.needDecl("(declare-fun str_lastfn (Str Int) Int)")
		fid := args[1].T
		if fid == "" {
			fid = "0"
		}
		fst, lst := app("str_firstfn", args[0].T, fid), app("str_lastfn", args[0].T, fid)
		x.trusted["strings.IndexFunc/LastIndexFunc: -1 <= r < len(s); for the same string and predicate both are -1 or first <= last (the predicate is assumed to be a pure function of the rune)"] = true
		x.assume(st.guard, and(app("<=", "(- 1)", fst), app("<", fst, app("slen", args[0].T)), app("<=", "(- 1)", lst), app("<", lst, app("slen", args[0].T)),
			eq(app("<", fst, "0"), app("<", lst, "0")), app("<=", fst, lst)))
		if name == "strings.IndexFunc" {
			return Val{T: x.define("indexfunc", sInt, fst), Typ: intT}, true
		}
		return Val{T: x.define("lastindexfunc", sInt, lst), Typ: intT}, true
	case "unicode/utf8.RuneCountInString":
		r := x.freshVal("runecount", intT, st)
		x.assume(st.guard, and(app("<=", "0", r.T), app("<=", r.T, app("slen", args[0].T)), implies(app(">", app("slen", args[0].T), "0"), app(">", r.T, "0")),
			app("<=", app("slen", args[0].T), app("*", "4", r.T))))
		x.assume(st.guard, eq(r.T, app("rune_count", args[0].T)))
		x.needRuneCount()
		x.trusted["unicode/utf8.RuneCountInString: 0<=n<=len(s)<=4n (uninterpreted rune_count)"] = true
		return r, true
	case "unicode/utf8.RuneLen":
		r := args[0].T
		return Val{T: ite(app("<", r, "0"), "(- 1)", ite(app("<", r, "128"), "1", ite(app("<", r, "2048"), "2", ite(and(app("<=", "55296", r), app("<=", r, "57343")), "(- 1)", ite(app("<", r, "65536"), "3", ite(app("<=", r, "1114111"), "4", "(- 1)")))))), Typ: resT}, true
	case "strings.Index", "strings.IndexByte", "strings.IndexRune", "strings.LastIndex", "strings.IndexAny", "strings.LastIndexByte", "strings.LastIndexAny":
		r := x.freshVal("index", intT, st)
		if name == "strings.Index" || name == "strings.LastIndex" {
			x.assume(st.guard, and(app("<=", "(- 1)", r.T), implies(app(">=", r.T, "0"), app("<=", app("+", r.T, app("slen", args[1].T)), app("slen", args[0].T)))))
		} else {
			x.assume(st.guard, and(app("<=", "(- 1)", r.T), app("<", r.T, app("slen", args[0].T))))
			if name == "strings.IndexRune" {
				// a valid code point other than U+FFFD found at r occupies its UTF-8 length there
				c := args[1].T
				rl := ite(app("<", c, "128"), "1", ite(app("<", c, "2048"), "2", ite(app("<", c, "65536"), "3", "4")))
				valid := and(or(and(app("<=", "0", c), app("<", c, "55296")), and(app("<", "57343", c), app("<=", c, "1114111"))), not(eq(c, "65533")))
				x.assume(st.guard, implies(and(app(">=", r.T, "0"), valid), app("<=", app("+", r.T, rl), app("slen", args[0].T))))
			}
		}
		x.trusted[name+": -1 <= r and r+len(sep) <= len(s)"] = true
		return r, true
	case "strings.HasPrefix", "strings.HasSuffix", "strings.Contains":
		r := x.freshVal("strpred", types.Typ[types.Bool], st)
		x.assume(st.guard, implies(r.T, app("<=", app("slen", args[1].T), app("slen", args[0].T))))
		x.trusted[name+": true implies len(arg1) <= len(arg0)"] = true
		return r, true
	case "strings.ContainsRune", "strings.ContainsAny", "strings.EqualFold":
		return x.freshVal("strpred", types.Typ[types.Bool], st), true
	case "unicode/utf8.ValidRune":
		r := args[0].T
		return Val{T: or(and(app("<=", "0", r), app("<", r, "55296")), and(app("<", "57343", r), app("<=", r, "1114111"))), Typ: resT}, true
	case "strings.Repeat":
		x.check(st, "pre", "strings.Repeat", app(">=", args[1].T, "0"), pos, "strings.Repeat: negative Repeat count panics")
		r := x.freshVal("repeat", resT, st)
		x.assume(st.guard, eq(app("slen", r.T), app("*", app("slen", args[0].T), args[1].T)))
		return r, true
	case "strings.ToUpper", "strings.ToLower", "strings.TrimSpace", "strings.Trim", "strings.TrimLeft", "strings.TrimRight", "strings.TrimPrefix", "strings.TrimSuffix", "strings.Replace", "strings.ReplaceAll", "strings.Join", "strings.Title":
		return x.freshVal("str", resT, st), true
	case "(*regexp.Regexp).FindAllStringSubmatchIndex":
		// documented result shape: one []int per match, of even length >= 2 (pairs of byte offsets into s: the match, then
		// each capture group); a pair is -1,-1 for a group that did not take part, else 0 <= start <= end <= len(s)
		x.trusted["regexp.FindAllStringSubmatchIndex: result shape as documented (even-length index slices, pairs -1,-1 or 0<=start<=end<=len(s))"] = true
		r := x.freshVal("submatchidx", resT, st)
		if len(args) == 3 {
			s := args[1].T
			outer, osrt := x.elemArr(st, resT.Underlying().(*types.Slice).Elem())
			inner, isrt := x.elemArr(st, types.NewSlice(types.Typ[types.Int]).Elem())
			oa, ia := x.heapArr(st, outer, osrt), x.heapArr(st, inner, isrt)
			q := fmt.Sprintf("(select (select %s (sl_arr %s)) (+ (sl_off %s) m))", oa, r.T, r.T)
			el := func(k string) string {
				return fmt.Sprintf("(select (select %s (sl_arr %s)) (+ (sl_off %s) %s))", ia, q, q, k)
			}
			x.assume(st.guard, fmt.Sprintf("(forall ((m Int)) (! (=> (and (<= 0 m) (< m (sl_len %s))) (and (>= (sl_len %s) 2) (= (mod (sl_len %s) 2) 0) (> (sl_arr %s) 0) (<= (sl_len %s) (sl_cap %s)) (>= (sl_off %s) 0))) :pattern (%s)))", r.T, q, q, q, q, q, q, q))
			x.assume(st.guard, fmt.Sprintf("(forall ((m Int) (j Int)) (! (=> (and (<= 0 m) (< m (sl_len %s)) (<= 0 j) (< (+ (* 2 j) 1) (sl_len %s))) (or (and (= %s (- 1)) (= %s (- 1))) (and (<= 0 %s) (<= %s %s) (<= %s (slen %s))))) :pattern (%s)))",
				r.T, q, el("(* 2 j)"), el("(+ (* 2 j) 1)"), el("(* 2 j)"), el("(* 2 j)"), el("(+ (* 2 j) 1)"), el("(+ (* 2 j) 1)"), s, el("(* 2 j)")))
		}
		return r, true
	case "net/url.Parse", "net/url.ParseRequestURI", "regexp.Compile", "time.LoadLocation":
		// documented constructors returning (*T, error): the pointer is non-nil when the error is nil
		r := x.freshResult(st, resT, "ctor")
		if len(r.Tuple) == 2 && r.Tuple[0].T != "" && r.Tuple[1].T != "" {
			x.trusted["library constructors (url.Parse, regexp.Compile, time.LoadLocation): non-nil result when the error is nil"] = true
			x.assume(st.guard, implies(eq(app("itag", r.Tuple[1].T), "0"), not(eq(r.Tuple[0].T, "0"))))
			x.assume(st.guard, implies(not(eq(app("itag", r.Tuple[1].T), "0")), not(eq(app("ival", r.Tuple[1].T), "0"))))
		}
		return r, true
	case "math/rand.Intn", "math/rand.Int63n", "math/rand.Int31n":
		// documented: panics if n <= 0; the result is in [0, n)
		x.check(st, "lib:rand.Intn", "", app(">", args[0].T, "0"), pos, name+": the argument must be positive (panics otherwise)")
		r := x.freshResult(st, resT, "randn")
		x.assume(st.guard, and(app("<=", "0", r.T), app("<", r.T, args[0].T)))
		return r, true
	case "strings.Split", "strings.SplitN", "strings.Fields":
		r := x.freshVal("split", resT, st)
		x.assume(st.guard, app(">", app("sl_arr", r.T), "0"))
		return r, true
	case "strconv.Itoa", "strconv.FormatInt", "strconv.FormatFloat", "strconv.Quote", "fmt.Sprintf", "fmt.Sprint", "fmt.Sprintln":
		return x.freshVal("fmt", resT, st), true
	case "(time.Time).Nanosecond", "(time.Time).Hour", "(time.Time).Minute", "(time.Time).Second":
		// documented ranges of the clock fields
		r := x.freshResult(st, resT, "timefield")
		hi := map[string]string{"(time.Time).Nanosecond": "999999999", "(time.Time).Hour": "23", "(time.Time).Minute": "59", "(time.Time).Second": "59"}[name]
		x.trusted["package time: clock fields lie in their documented ranges"] = true
		x.assume(st.guard, and(app("<=", "0", r.T), app("<=", r.T, hi)))
		return r, true
	case "(time.Time).Month", "(time.Time).Day", "(time.Time).YearDay", "(time.Time).Weekday":
		// documented ranges of the calendar fields
		r := x.freshResult(st, resT, "datefield")
		rng := map[string][2]string{"(time.Time).Month": {"1", "12"}, "(time.Time).Day": {"1", "31"}, "(time.Time).YearDay": {"1", "366"}, "(time.Time).Weekday": {"0", "6"}}[name]
		x.trusted["package time: calendar fields lie in their documented ranges (Month 1..12, Day 1..31, YearDay 1..366, Weekday 0..6, ISO week 1..53, zone offset within a day)"] = true
		x.assume(st.guard, and(app("<=", rng[0], r.T), app("<=", r.T, rng[1])))
		return r, true
	case "(time.Time).ISOWeek":
		r := x.freshResult(st, resT, "isoweek")
		if len(r.Tuple) == 2 {
			x.trusted["package time: calendar fields lie in their documented ranges (Month 1..12, Day 1..31, YearDay 1..366, Weekday 0..6, ISO week 1..53, zone offset within a day)"] = true
			x.assume(st.guard, and(app("<=", "1", r.Tuple[1].T), app("<=", r.Tuple[1].T, "53")))
		}
		return r, true
	case "(time.Time).Zone":
		// the offset is what FixedZone / the zone database holds: seconds east of UTC, an int; zone databases and
		// parseTimeZone (at most 99:99) stay far inside +-2^31
		r := x.freshResult(st, resT, "zone")
		if len(r.Tuple) == 2 {
			x.trusted["package time: zone offsets are 32-bit quantities (the zone database format and FixedZone callers in the repository)"] = true
			x.assume(st.guard, and(app("<", "(- 2147483648)", r.Tuple[1].T), app("<", r.Tuple[1].T, "2147483648")))
		}
		return r, true
	case "(time.Time).UnixNano":
		// documented: "The result is undefined if the Unix time in nanoseconds cannot be represented by an int64 (a date
		// before the year 1678 or after 2262)". The precondition is an obligation: a caller has to know its instant is in
		// that range (time_nano_ok is only ever established by an explicit precondition of the caller).
		if len(args) == 1 && args[0].T != "" {
			ts := x.srt.sortOf(args[0].Typ)
			x.needDecl(fmt.Sprintf("(declare-fun time_nano_ok (%s) Bool)", ts))
			x.check(st, "lib:UnixNano", "", app("time_nano_ok", args[0].T), pos, "time.Time.UnixNano: the instant must lie between the years 1678 and 2262 (the result is undefined otherwise)")
		}
		return x.freshResult(st, resT, "unixnano"), true
	case "strconv.Atoi":
		// a decimal numeral of k characters (sign included) has magnitude below 10^k
		r := x.freshResult(st, resT, "atoi")
		if len(r.Tuple) == 2 && len(args) == 1 {
			x.trusted["strconv.Atoi: the value of a numeral of k characters is below 10^k in magnitude (k <= 4 used)"] = true
			for k, lim := range map[string]string{"1": "9", "2": "99", "3": "999", "4": "9999"} {
				x.assume(st.guard, implies(app("<=", app("slen", args[0].T), k), and(app("<=", "(- "+lim+")", r.Tuple[0].T), app("<=", r.Tuple[0].T, lim))))
			}
			x.assume(st.guard, implies(not(eq(app("itag", r.Tuple[1].T), "0")), not(eq(app("ival", r.Tuple[1].T), "0"))))
		}
		return r, true
	case "strconv.ParseInt":
		// documented: the result fits the requested bit size (0 means int); on error the value is still in that range
		r := x.freshResult(st, resT, "parseint")
		if len(r.Tuple) == 2 && len(args) == 3 {
			x.trusted["strconv.ParseInt: the result fits the requested bit size (documented)"] = true
			for _, bs := range []struct{ bits, lo, hi string }{{"8", "(- 128)", "127"}, {"16", "(- 32768)", "32767"}, {"32", "(- 2147483648)", "2147483647"}} {
				x.assume(st.guard, implies(eq(args[2].T, bs.bits), and(app("<=", bs.lo, r.Tuple[0].T), app("<=", r.Tuple[0].T, bs.hi))))
			}
			x.assume(st.guard, implies(not(eq(app("itag", r.Tuple[1].T), "0")), not(eq(app("ival", r.Tuple[1].T), "0"))))
		}
		return r, true
	case "fmt.Errorf", "errors.New":
		r := x.freshVal("err", resT, st)
		x.assume(st.guard, not(eq(app("itag", r.T), "0")))
		return r, true
	case "math.Floor", "math.Ceil", "math.Trunc", "math.Round", "math.RoundToEven":
		m := map[string]string{"math.Floor": "RTN", "math.Ceil": "RTP", "math.Trunc": "RTZ", "math.Round": "RNA", "math.RoundToEven": "RNE"}
		return Val{T: x.define("rnd", sF64, app("fp.roundToIntegral "+m[name], args[0].T)), Typ: resT}, true
	case "math.Abs":
		return Val{T: app("fp.abs", args[0].T), Typ: resT}, true
	case "math.IsNaN":
		return Val{T: app("fp.isNaN", args[0].T), Typ: resT}, true
	case "math.IsInf":
		sgn := args[1].T
		return Val{T: or(and(app(">=", sgn, "0"), eq(args[0].T, "(_ +oo 11 53)")), and(app("<=", sgn, "0"), eq(args[0].T, "(_ -oo 11 53)"))), Typ: resT}, true
	case "math.Sqrt":
		// the library function, by its documented special cases and range (bit-blasting fp.sqrt is out of the solvers' reach)
		x.needDecl("(declare-fun math_sqrt (F64) F64)")
		x.trusted["math.Sqrt: finite and non-negative on finite non-negative arguments, NaN on negative ones and NaN, +Inf on +Inf (documented behaviour, not bit-level)"] = true
		a := args[0].T
		r := x.define("sqrt", sF64, app("math_sqrt", a))
		fin := func(t string) string { return and(not(app("fp.isNaN", t)), not(app("fp.isInfinite", t))) }
		x.assume("true", and(
			implies(and(fin(a), app("fp.geq", a, "(_ +zero 11 53)")), and(fin(r), app("fp.geq", r, "(_ +zero 11 53)"))),
			implies(or(app("fp.isNaN", a), app("fp.lt", a, "(_ +zero 11 53)")), app("fp.isNaN", r)),
			implies(and(app("fp.isInfinite", a), app("fp.isPositive", a)), and(app("fp.isInfinite", r), app("fp.isPositive", r)))))
		return Val{T: r, Typ: resT}, true
	case "math.Inf":
		return Val{T: ite(app(">=", args[0].T, "0"), "(_ +oo 11 53)", "(_ -oo 11 53)"), Typ: resT}, true
	case "math.NaN":
		return Val{T: "(_ NaN 11 53)", Typ: resT}, true
	case "math.Mod", "math.Pow":
		// trusted, uninterpreted: the contract language names the same function (fmod / fpow)
		fn := map[string]string{"math.Mod": "math_mod", "math.Pow": "math_pow"}[name]
		x.needDecl(fmt.Sprintf("(declare-fun %s (F64 F64) F64)", fn))
		x.trusted[name+": uninterpreted function "+fn+" (IEEE semantics of the library function are trusted, not modelled)"] = true
		return Val{T: x.define("m", sF64, app(fn, args[0].T, args[1].T)), Typ: resT}, true
	case "math.Pow10", "math.Log", "math.Log10", "math.Exp", "math.Log2", "math.Nextafter", "math.Modf", "math.Max", "math.Min", "math.Float64bits", "math.Float64frombits", "math.Signbit", "math.Copysign":
		if name == "math.Signbit" {
			return Val{T: app("fp.isNegative", args[0].T), Typ: resT}, true
		}
		x.trusted[name+": uninterpreted (result unconstrained)"] = true
		return x.freshResult(st, resT, "math"), true
	case "unicode.IsDigit", "unicode.IsLetter", "unicode.IsSpace", "unicode.IsUpper", "unicode.IsLower", "unicode.ToUpper", "unicode.ToLower":
		return x.freshResult(st, resT, "unicode"), true
	case "unicode/utf16.IsSurrogate":
		r := args[0].T
		return Val{T: and(app("<=", "55296", r), app("<", r, "57344")), Typ: resT}, true
	case "unicode/utf16.DecodeRune":
		r1, r2 := args[0].T, args[1].T
		okc := and(app("<=", "55296", r1), app("<", r1, "56320"), app("<=", "56320", r2), app("<", r2, "57344"))
		return Val{T: x.define("u16", sInt, ite(okc, app("+", app("*", app("-", r1, "55296"), "1024"), app("-", r2, "56320"), "65536"), "65533")), Typ: resT}, true
	}
	return Val{}, false
}

// fpOp: the SMT operator for a float64 arithmetic operation. A contract may ask for `abstract-float`: + - * / become
// uninterpreted functions (in the code and in the contract alike). That is an over-approximation — enough where the
// clauses only need "the result is THE sum/quotient of these operands" — and avoids bit-blasting 53-bit multipliers.
func (x *vc) fpOp(op string) string {
	if x.topFC == nil || !x.topFC.abstractFloat {
		return op
	}
	name := map[string]string{"fp.add RNE": "uf_fadd", "fp.sub RNE": "uf_fsub", "fp.mul RNE": "uf_fmul", "fp.div RNE": "uf_fdiv"}[op]
	if name == "" {
		return op
	}
	x.needDecl(fmt.Sprintf("(declare-fun %s (F64 F64) F64)", name))
	return name
}

func (x *vc) needDecl(decl string) {
	for _, d := range x.decls {
		if d == decl {
			return
		}
	}
	x.decls = append(x.decls, decl)
}

func (x *vc) needMax0() {
	for _, d := range x.decls {
		if strings.HasPrefix(d, "(define-fun max0 ") {
			return
		}
	}
	x.decls = append(x.decls, "(define-fun max0 ((a Int)) Int (ite (< a 1) 1 a))")
}

// needRunesBefore: runes_before(s, p) counts the runes of s that start before byte offset p, along the exact UTF-8
// decoding spec str_width (the function utf8.DecodeRuneInString / range-over-string realise): 0 at 0, one more after
// each decoded rune, rune_count(s) at len(s). This is the definition of "number of code points" (trusted as such).
func (x *vc) needRunesBefore() {
	for _, d := range x.decls {
		if strings.HasPrefix(d, "(declare-fun runes_before ") {
			return
		}
	}
	x.trusted["runes_before / rune_count: code points counted along the UTF-8 decoding spec (definition of utf8.RuneCountInString)"] = true
	// rune_start(s, p): p is the offset of a rune of s in the decoding that starts at 0 (the recurrence must not be
	// stated for offsets inside a rune: it would be inconsistent there)
	x.decls = append(x.decls, "(declare-fun runes_before (Str Int) Int)", "(declare-fun rune_start (Str Int) Bool)")
	x.asserts = append(x.asserts,
		// (guarded by slen >= 0: Str is a free datatype, terms with a negative length exist and must not be constrained)
		"(assert (forall ((s Str)) (! (=> (>= (slen s) 0) (and (rune_start s 0) (= (runes_before s 0) 0) (= (runes_before s (slen s)) (rune_count s)) (<= 0 (rune_count s)) (<= (rune_count s) (slen s)))) :pattern ((rune_count s)))))",
		"(assert (forall ((s Str) (p Int)) (! (=> (and (rune_start s p) (<= 0 p) (< p (slen s))) (and (rune_start s (+ p (str_width s p))) (= (runes_before s (+ p (str_width s p))) (+ (runes_before s p) 1)) (<= 0 (runes_before s p)) (< (runes_before s p) (rune_count s)))) :pattern ((rune_start s p)))))")
}

func (x *vc) needRuneCount() {
	for _, d := range x.decls {
		if strings.HasPrefix(d, "(declare-fun rune_count ") {
			return
		}
	}
	x.decls = append(x.decls, "(declare-fun rune_count (Str) Int)")
}
