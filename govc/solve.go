package main

import (
	"bytes"
	"context"
	"fmt"
	"os"
	"os/exec"
	"path/filepath"
	"runtime"
	"strings"
	"sync"
	"time"
)

type solverSpec struct {
	name string
	cmd  func(file string, timeoutS int) []string
	pre  string
}

var solvers = []solverSpec{
	{"z3-new", func(f string, t int) []string { return []string{"z3-new", fmt.Sprintf("-T:%d", t), f} }, ""},
	{"cvc5", func(f string, t int) []string {
		return []string{"cvc5", fmt.Sprintf("--tlimit=%d", t*1000), "--full-saturate-quant", f}
	}, "(set-logic ALL)\n"},
	{"z3", func(f string, t int) []string { return []string{"z3", fmt.Sprintf("-T:%d", t), f} }, ""},
	// the same solvers with other random seeds (stage 3 of dischargeAll; selected by name only)
	{"z3@7", func(f string, t int) []string { return []string{"z3", fmt.Sprintf("-T:%d", t), "smt.random_seed=7", f} }, ""},
	{"z3@42", func(f string, t int) []string { return []string{"z3", fmt.Sprintf("-T:%d", t), "smt.random_seed=42", f} }, ""},
	{"z3-new@7", func(f string, t int) []string {
		return []string{"z3-new", fmt.Sprintf("-T:%d", t), "smt.random_seed=7", f}
	}, ""},
	{"z3-new@42", func(f string, t int) []string {
		return []string{"z3-new", fmt.Sprintf("-T:%d", t), "smt.random_seed=42", f}
	}, ""},
}

// solverFamily: the solver behind a portfolio entry (reseeded variants are the same solver)
func solverFamily(name string) string {
	if k := strings.Index(name, "@"); k >= 0 {
		return name[:k]
	}
	return name
}

type solveOut struct {
	answer string // sat unsat unknown
	solver string
	secs   float64
	output string
}

func runSolver(ctx context.Context, s solverSpec, dir, base, script string, timeoutS int, extra string) solveOut {
	file := filepath.Join(dir, base+"."+s.name+".smt2")
	body := s.pre + script + "(check-sat)\n" + extra
	if s.name == "cvc5" && extra != "" {
		body = "(set-option :produce-models true)\n" + body
	}
	if err := os.WriteFile(file, []byte(body), 0o644); err != nil {
		return solveOut{answer: "unknown", solver: s.name, output: err.Error()}
	}
	args := s.cmd(file, timeoutS)
	cctx, cancel := context.WithTimeout(ctx, time.Duration(timeoutS+2)*time.Second)
	defer cancel()
	cmd := exec.CommandContext(cctx, args[0], args[1:]...)
	var out bytes.Buffer
	cmd.Stdout = &out
	cmd.Stderr = &out
	t0 := time.Now()
	_ = cmd.Run()
	secs := time.Since(t0).Seconds()
	text := out.String()
	// the answer is the first line that is not a solver warning (z3 warns about terms it will not use in patterns);
	// an (error ...) line before it means the script was not understood: undecided
	ans := "unknown"
	for _, ln := range strings.Split(text, "\n") {
		ln = strings.TrimSpace(ln)
		if ln == "" || strings.HasPrefix(ln, "WARNING:") {
			continue
		}
		if ln == "sat" || ln == "unsat" {
			ans = ln
		}
		break
	}
	return solveOut{answer: ans, solver: s.name, secs: secs, output: text}
}

// solvePortfolio runs the solvers concurrently and returns the first definite answer.
func solvePortfolio(dir, base, script string, timeoutS int, which []string) solveOut {
	ctx, cancel := context.WithCancel(context.Background())
	defer cancel()
	ch := make(chan solveOut, len(solvers))
	n := 0
	for _, s := range solvers {
		use := len(which) == 0
		for _, w := range which {
			if w == s.name {
				use = true
			}
		}
		if !use {
			continue
		}
		n++
		go func(s solverSpec) { ch <- runSolver(ctx, s, dir, base, script, timeoutS, "") }(s)
	}
	var last solveOut
	var outs []string
	total := 0.0
	for i := 0; i < n; i++ {
		r := <-ch
		total += r.secs
		outs = append(outs, fmt.Sprintf("[%s %.2fs] %s", r.solver, r.secs, strings.TrimSpace(firstLines(r.output, 3))))
		if r.answer == "sat" || r.answer == "unsat" {
			cancel()
			r.output = strings.Join(outs, "\n")
			return r
		}
		last = r
	}
	last.answer = "unknown"
	last.output = strings.Join(outs, "\n")
	return last
}

func firstLines(s string, n int) string {
	ls := strings.Split(s, "\n")
	if len(ls) > n {
		ls = ls[:n]
	}
	return strings.Join(ls, "\n")
}

// probeReach: also run the soft per-block reachability probes
var probeReach = true

// probeInlined: probe the blocks of inlined callees too (thorough tier); the quick tier probes the blocks of
// the function under verification itself
var probeInlined = false

type solveStats struct {
	mu       sync.Mutex
	bySolver map[string]int
	secs     float64
}

// dischargeAll solves all obligations of the given function results in parallel.
func dischargeAll(results []*funcResult, workDir string, timeoutS int, jobs int, twoAgree bool) *solveStats {
	stats := &solveStats{bySolver: map[string]int{}}
	type job struct {
		fr *funcResult
		o  *obligation
	}
	var all []job
	for _, fr := range results {
		for _, o := range fr.obls {
			all = append(all, job{fr, o})
		}
		if probeReach {
			for _, o := range fr.reach {
				all = append(all, job{fr, o})
			}
		}
	}
	ch := make(chan job)
	var wg sync.WaitGroup
	for w := 0; w < jobs; w++ {
		wg.Add(1)
		go func() {
			defer wg.Done()
			for j := range ch {
				script := j.fr.script(j.o)
				base := mangle(j.o.name)
				if len(base) > 150 {
					base = base[:150]
				}
				var r solveOut
				if j.o.goal == "false" && j.o.guard == "false" {
					r = solveOut{answer: "unsat", solver: "trivial"}
				} else {
					// stage 1: the solver that decides most of our goals fastest, alone and briefly;
					// stage 2: the full portfolio
					first := 3
					if timeoutS < first {
						first = timeoutS
					}
					r = solvePortfolio(workDir, base, script, first, []string{"cvc5"})
					if r.answer != "sat" && r.answer != "unsat" {
						r1 := r
						t2 := timeoutS
						if j.o.canary && t2 > 6 {
							// a canary only has to fail to be proved: an undecided one is as good as a refuted one, no need to wait
							t2 = 6
						}
						r = solvePortfolio(workDir, base, script, t2, []string{"z3-new", "z3", "cvc5"})
						r.secs += r1.secs
						if r.answer != "sat" && r.answer != "unsat" && !j.o.canary {
							// stage 3: quantifier instantiation in z3 depends on its random seed (a goal decided in 0.2 s with
							// one seed times out with another): the same two solvers again with other seeds
							r2 := r
							r = solvePortfolio(workDir, base+".reseed", script, t2, []string{"z3@7", "z3@42", "z3-new@7", "z3-new@42"})
							r.secs += r2.secs
							r.output = r2.output + "\n" + r.output
						}
					}
				}
				j.o.solver = r.solver
				j.o.secs = r.secs
				j.o.output = r.output
				switch r.answer {
				case "unsat":
					j.o.status = "discharged"
					if twoAgree && r.solver != "trivial" {
						// a second solver must agree
						var others []string
						for _, s := range solvers {
							if solverFamily(s.name) != solverFamily(r.solver) && !strings.Contains(s.name, "@") {
								others = append(others, s.name)
							}
						}
						r2 := solvePortfolio(workDir, base+".second", script, timeoutS, others)
						if r2.answer == "sat" {
							j.o.status = "failed"
							j.o.output += "\nSOLVER DISAGREEMENT: " + r2.solver + " says sat"
						} else if r2.answer == "unsat" {
							j.o.solver += "+" + r2.solver
						}
						j.o.secs += r2.secs
					}
				case "sat":
					j.o.status = "failed"
				default:
					j.o.status = "unknown"
				}
				if j.o.canary {
					// canaries must be refuted: sat is the good outcome
					if r.answer == "sat" {
						j.o.status = "discharged"
					} else if r.answer == "unsat" && j.o.soft {
						j.o.status = "unreachable"
					} else if r.answer == "unsat" {
						j.o.status = "failed"
						j.o.output += "\nVACUOUS: assumptions of the function are contradictory or no exit is reachable"
					} else {
						j.o.status = "discharged" // undecided canary: cannot show vacuity; reported in notes
						j.o.output += "\ncanary undecided"
					}
				}
				stats.mu.Lock()
				stats.bySolver[r.solver]++
				stats.secs += j.o.secs
				stats.mu.Unlock()
			}
		}()
	}
	for _, j := range all {
		ch <- j
	}
	close(ch)
	wg.Wait()
	return stats
}

// getValues asks z3-new for the values of the given terms in a model of the failed obligation.
func getValues(workDir, base, script string, terms []string, side []string, timeoutS int) (map[string]string, bool) {
	if len(terms) == 0 {
		return map[string]string{}, true
	}
	extra := "(get-value (" + strings.Join(terms, " ") + "))\n"
	body := script
	for _, s := range side {
		body += "(assert " + s + ")\n"
	}
	for _, s := range []solverSpec{solvers[0], solvers[2], solvers[1]} {
		r := runSolver(context.Background(), s, workDir, base+".model", body, timeoutS, extra)
		if r.answer != "sat" {
			continue
		}
		rest := r.output[strings.Index(r.output, "\n")+1:]
		vals := parseGetValue(rest)
		if len(vals) == len(terms) {
			m := map[string]string{}
			for i, t := range terms {
				m[t] = vals[i]
			}
			return m, true
		}
	}
	return nil, false
}

// parseGetValue parses "((t1 v1) (t2 v2) ...)" returning the values in order
func parseGetValue(s string) []string {
	s = strings.TrimSpace(s)
	toks := sexpTokens(s)
	pos := 0
	var parse func() interface{}
	parse = func() interface{} {
		if pos >= len(toks) {
			return nil
		}
		t := toks[pos]
		pos++
		if t == "(" {
			var l []interface{}
			for pos < len(toks) && toks[pos] != ")" {
				l = append(l, parse())
			}
			pos++
			return l
		}
		return t
	}
	top, ok := parse().([]interface{})
	if !ok {
		return nil
	}
	var out []string
	for _, p := range top {
		pair, ok := p.([]interface{})
		if !ok || len(pair) != 2 {
			return nil
		}
		out = append(out, sexpString(pair[1]))
	}
	return out
}

func sexpTokens(s string) []string {
	var toks []string
	i := 0
	for i < len(s) {
		c := s[i]
		switch {
		case c == '(' || c == ')':
			toks = append(toks, string(c))
			i++
		case c == ' ' || c == '\n' || c == '\t' || c == '\r':
			i++
		case c == '"':
			j := i + 1
			for j < len(s) && s[j] != '"' {
				j++
			}
			toks = append(toks, s[i:j+1])
			i = j + 1
		case c == '|':
			j := i + 1
			for j < len(s) && s[j] != '|' {
				j++
			}
			toks = append(toks, s[i:j+1])
			i = j + 1
		default:
			j := i
			for j < len(s) && !strings.ContainsRune("() \n\t\r", rune(s[j])) {
				j++
			}
			toks = append(toks, s[i:j])
			i = j
		}
	}
	return toks
}

func sexpString(v interface{}) string {
	switch t := v.(type) {
	case string:
		return t
	case []interface{}:
		var parts []string
		for _, e := range t {
			parts = append(parts, sexpString(e))
		}
		return "(" + strings.Join(parts, " ") + ")"
	}
	return ""
}

// defaultJobs: obligations solved in parallel (each runs up to three solver processes)
func defaultJobs() int {
	n := runtime.NumCPU() - 2
	if n < 4 {
		n = 4
	}
	if n > 14 {
		n = 14
	}
	return n
}
