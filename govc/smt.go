package main

import (
	"fmt"
	"go/types"
	"sort"
	"strings"
)

// ---------------------------------------------------------------------------
// SMT term helpers. Terms are plain strings in SMT-LIB2 syntax.

func app(op string, args ...string) string {
	if len(args) == 0 {
		return op
	}
	return "(" + op + " " + strings.Join(args, " ") + ")"
}

func smtInt(n int64) string {
	if n < 0 {
		if n == -9223372036854775808 {
			return "(- 9223372036854775808)"
		}
		return fmt.Sprintf("(- %d)", -n)
	}
	return fmt.Sprintf("%d", n)
}

func smtBigInt(s string) string {
	if strings.HasPrefix(s, "-") {
		return "(- " + s[1:] + ")"
	}
	return s
}

func and(ts ...string) string {
	var xs []string
	for _, t := range ts {
		if t == "true" || t == "" {
			continue
		}
		if t == "false" {
			return "false"
		}
		xs = append(xs, t)
	}
	switch len(xs) {
	case 0:
		return "true"
	case 1:
		return xs[0]
	}
	return app("and", xs...)
}

func or(ts ...string) string {
	var xs []string
	for _, t := range ts {
		if t == "false" || t == "" {
			continue
		}
		if t == "true" {
			return "true"
		}
		xs = append(xs, t)
	}
	switch len(xs) {
	case 0:
		return "false"
	case 1:
		return xs[0]
	}
	return app("or", xs...)
}

func not(t string) string {
	switch t {
	case "true":
		return "false"
	case "false":
		return "true"
	}
	if strings.HasPrefix(t, "(not ") && balanced(t[5:len(t)-1]) {
		return t[5 : len(t)-1]
	}
	return app("not", t)
}

func balanced(s string) bool {
	d := 0
	for _, c := range s {
		if c == '(' {
			d++
		} else if c == ')' {
			d--
			if d < 0 {
				return false
			}
		}
	}
	return d == 0
}

func implies(a, b string) string {
	if a == "true" {
		return b
	}
	if a == "false" || b == "true" {
		return "true"
	}
	return app("=>", a, b)
}

func ite(c, a, b string) string {
	if c == "true" {
		return a
	}
	if c == "false" {
		return b
	}
	if a == b {
		return a
	}
	return app("ite", c, a, b)
}

func eq(a, b string) string {
	if a == b {
		return "true"
	}
	return app("=", a, b)
}

// ---------------------------------------------------------------------------
// Sorts

const (
	sInt   = "Int"
	sBool  = "Bool"
	sF64   = "F64"
	sStr   = "Str"
	sSlice = "Slice"
	sIface = "Iface"
	sRV    = "RV"
)

const prelude = `(define-sort F64 () (_ FloatingPoint 11 53))
(define-sort RV () Int)
(declare-datatypes ((Str 0)) (((mkstr (sarr (Array Int Int)) (soff Int) (slen Int)))))
(declare-datatypes ((Slice 0)) (((mkslice (sl_arr Int) (sl_off Int) (sl_len Int) (sl_cap Int)))))
(declare-datatypes ((Iface 0)) (((mkiface (itag Int) (ival Int)))))
(define-fun sbyte ((s Str) (i Int)) Int (select (sarr s) (+ (soff s) i)))
(define-fun go_div ((a Int) (b Int)) Int (ite (>= a 0) (ite (> b 0) (div a b) (- (div a (- b)))) (ite (> b 0) (- (div (- a) b)) (div (- a) (- b)))))
(define-fun go_mod ((a Int) (b Int)) Int (- a (* b (go_div a b))))
(define-fun wrap64 ((x Int)) Int (- (mod (+ x 9223372036854775808) 18446744073709551616) 9223372036854775808))
(define-fun wrap32 ((x Int)) Int (- (mod (+ x 2147483648) 4294967296) 2147483648))
(define-fun cont ((b Int)) Bool (and (<= 128 b) (<= b 191)))
(define-fun u8size ((b0 Int)) Int (ite (< b0 128) 1 (ite (< b0 194) 0 (ite (< b0 224) 2 (ite (< b0 240) 3 (ite (< b0 245) 4 0))))))
(define-fun u8ok2 ((b0 Int) (b1 Int)) Bool (ite (= b0 224) (and (<= 160 b1) (<= b1 191)) (ite (= b0 237) (and (<= 128 b1) (<= b1 159)) (ite (= b0 240) (and (<= 144 b1) (<= b1 191)) (ite (= b0 244) (and (<= 128 b1) (<= b1 143)) (cont b1))))))
(define-fun u8full ((n Int) (b0 Int) (b1 Int) (b2 Int) (b3 Int)) Bool (and (>= (u8size b0) 2) (>= n (u8size b0)) (u8ok2 b0 b1) (or (< (u8size b0) 3) (cont b2)) (or (< (u8size b0) 4) (cont b3))))
(define-fun u8width ((n Int) (b0 Int) (b1 Int) (b2 Int) (b3 Int)) Int (ite (< n 1) 0 (ite (u8full n b0 b1 b2 b3) (u8size b0) 1)))
(define-fun u8rune ((n Int) (b0 Int) (b1 Int) (b2 Int) (b3 Int)) Int (ite (< n 1) 65533 (ite (< b0 128) b0 (ite (u8full n b0 b1 b2 b3) (ite (= (u8size b0) 2) (+ (* (- b0 192) 64) (- b1 128)) (ite (= (u8size b0) 3) (+ (* (- b0 224) 4096) (* (- b1 128) 64) (- b2 128)) (+ (* (- b0 240) 262144) (* (- b1 128) 4096) (* (- b2 128) 64) (- b3 128)))) 65533))))
(define-fun str_width ((s Str) (i Int)) Int (u8width (- (slen s) i) (sbyte s i) (sbyte s (+ i 1)) (sbyte s (+ i 2)) (sbyte s (+ i 3))))
(define-fun str_rune ((s Str) (i Int)) Int (u8rune (- (slen s) i) (sbyte s i) (sbyte s (+ i 1)) (sbyte s (+ i 2)) (sbyte s (+ i 3))))
(define-fun substr ((s Str) (lo Int) (hi Int)) Str (mkstr (sarr s) (+ (soff s) lo) (- hi lo)))
(declare-fun strkey (Str) Int)
(declare-fun keystr (Int) Str)
(declare-fun keylen (Int) Int)
(define-fun streq ((a Str) (b Str)) Bool (= (strkey a) (strkey b)))
(declare-fun strlt (Str Str) Bool)
(declare-fun box_Str (Str) Int)
(declare-fun unbox_Str (Int) Str)
(declare-fun box_F64 (F64) Int)
(declare-fun unbox_F64 (Int) F64)
(declare-fun box_Bool (Bool) Int)
(declare-fun unbox_Bool (Int) Bool)
(declare-fun box_Int (Int) Int)
(declare-fun unbox_Int (Int) Int)
(declare-fun box_Slice (Slice) Int)
(declare-fun unbox_Slice (Int) Slice)
`

// String equality: strkey(s) identifies the content of s; streq(a, b) is equality of the identifiers (prelude), hence an
// equivalence; equal strings have equal lengths (keylen). keystr(id) is a string with identifier id (the key of a
// quantifier over the members of a string-keyed map).
const streqAxioms = `(assert (forall ((a Str)) (! (= (slen a) (keylen (strkey a))) :pattern ((strkey a)))))
`

const strkeyAxioms = `(assert (forall ((q Int)) (! (= (strkey (keystr q)) q) :pattern ((keystr q)))))
`

// sorter maps Go types to SMT sorts, declaring struct datatypes on demand.
type sorter struct {
	structDecls []string          // datatype declarations in dependency order
	structSort  map[string]string // types.Type string -> sort name
	structInfo  map[string]*structInfo
	typeIDs     map[string]int
	typeByID    []types.Type
	boxes       map[string]bool
}

type structInfo struct {
	sort   string
	typ    types.Type // named or struct type
	st     *types.Struct
	fields []string // accessor names
	fsorts []string
}

func newSorter() *sorter {
	return &sorter{structSort: map[string]string{}, structInfo: map[string]*structInfo{}, typeIDs: map[string]int{},
		boxes: map[string]bool{"Str": true, "F64": true, "Bool": true, "Int": true, "Slice": true}}
}

func mangle(s string) string {
	var b strings.Builder
	for _, c := range s {
		switch {
		case c >= 'a' && c <= 'z', c >= 'A' && c <= 'Z', c >= '0' && c <= '9', c == '_':
			b.WriteRune(c)
		case c == '.' || c == '/':
			b.WriteRune('_')
		case c == '*':
			b.WriteString("P")
		case c == '[':
			b.WriteString("L")
		case c == ']':
			b.WriteString("R")
		default:
			b.WriteString("_")
		}
	}
	return b.String()
}

func shortTypeName(t types.Type) string {
	s := types.TypeString(t, func(p *types.Package) string { return p.Name() })
	return mangle(s)
}

func isReflectValue(t types.Type) bool {
	if n, ok := t.(*types.Named); ok {
		o := n.Obj()
		if o.Pkg() != nil && o.Pkg().Path() == "reflect" && o.Name() == "Value" {
			return true
		}
		// `type T reflect.Value` (jlib.StringCallable, StringNumberBool, ...): same representation, converted freely
		if st, ok := n.Underlying().(*types.Struct); ok && st.NumFields() == 3 {
			for i := 0; i < st.NumFields(); i++ {
				if fn, ok := st.Field(i).Type().(*types.Named); ok && fn.Obj().Pkg() != nil && fn.Obj().Pkg().Path() == "reflect" && fn.Obj().Name() == "flag" {
					return true
				}
			}
		}
	}
	return false
}

// isRepoType reports whether a named type is declared in the repository under verification.
func isRepoType(t types.Type) bool {
	if n, ok := t.(*types.Named); ok {
		o := n.Obj()
		return o.Pkg() != nil && strings.HasPrefix(o.Pkg().Path(), "github.com/blues/jsonata-go")
	}
	return false
}

func (s *sorter) sortOf(t types.Type) string {
	if isReflectValue(t) {
		return sRV
	}
	switch u := t.Underlying().(type) {
	case *types.Basic:
		switch {
		case u.Info()&types.IsBoolean != 0:
			return sBool
		case u.Info()&types.IsInteger != 0:
			return sInt
		case u.Info()&types.IsFloat != 0:
			return sF64
		case u.Info()&types.IsString != 0:
			return sStr
		case u.Kind() == types.UnsafePointer:
			return sInt
		case u.Kind() == types.UntypedNil:
			return sInt
		}
		return sInt
	case *types.Pointer, *types.Map, *types.Chan, *types.Signature:
		return sInt
	case *types.Slice:
		return sSlice
	case *types.Interface:
		return sIface
	case *types.Array:
		return "(Array Int " + s.sortOf(u.Elem()) + ")"
	case *types.Struct:
		if !isRepoType(t) {
			if _, ok := t.(*types.Named); ok {
				return sInt // opaque external struct (time.Time, sync.RWMutex, ...)
			}
		}
		return s.structSortOf(t, u)
	case *types.Tuple:
		return sInt
	}
	return sInt
}

func (s *sorter) structSortOf(t types.Type, st *types.Struct) string {
	key := t.String()
	if n, ok := s.structSort[key]; ok {
		return n
	}
	name := "S_" + shortTypeName(t)
	if _, isNamed := t.(*types.Named); !isNamed {
		name = fmt.Sprintf("S_anon%d", len(s.structSort))
	}
	s.structSort[key] = name
	info := &structInfo{sort: name, typ: t, st: st}
	var flds []string
	for i := 0; i < st.NumFields(); i++ {
		fs := s.sortOf(st.Field(i).Type())
		acc := fmt.Sprintf("%s_%s", name, st.Field(i).Name())
		info.fields = append(info.fields, acc)
		info.fsorts = append(info.fsorts, fs)
		flds = append(flds, fmt.Sprintf("(%s %s)", acc, fs))
	}
	if st.NumFields() == 0 {
		flds = append(flds, fmt.Sprintf("(%s_dummy Int)", name))
	}
	s.structInfo[name] = info
	s.structDecls = append(s.structDecls, fmt.Sprintf("(declare-datatypes ((%s 0)) (((mk_%s %s))))", name, name, strings.Join(flds, " ")))
	return name
}

func (s *sorter) typeID(t types.Type) int {
	key := t.String()
	if id, ok := s.typeIDs[key]; ok {
		return id
	}
	id := len(s.typeIDs) + 1
	s.typeIDs[key] = id
	s.typeByID = append(s.typeByID, t)
	return id
}

// zero value of a type as an SMT term
func (s *sorter) zero(t types.Type) string {
	return s.zeroSort(s.sortOf(t), t)
}

func (s *sorter) zeroSort(srt string, t types.Type) string {
	switch srt {
	case sInt:
		return "0"
	case sBool:
		return "false"
	case sF64:
		return "(_ +zero 11 53)"
	case sStr:
		return "(mkstr ((as const (Array Int Int)) 0) 0 0)" // a value in the SMT-LIB sense: cvc5 accepts only values as const-array elements
	case sSlice:
		return "(mkslice 0 0 0 0)"
	case sIface:
		return "(mkiface 0 0)"
	case sRV:
		return "0" // the zero reflect.Value (rv_zero); written as a literal so that it is a value inside constant arrays
	}
	if strings.HasPrefix(srt, "(Array Int ") {
		el := srt[len("(Array Int ") : len(srt)-1]
		var et types.Type
		if t != nil {
			if a, ok := t.Underlying().(*types.Array); ok {
				et = a.Elem()
			}
		}
		return fmt.Sprintf("((as const %s) %s)", srt, s.zeroSort(el, et))
	}
	if info, ok := s.structInfo[srt]; ok {
		if len(info.fields) == 0 {
			return fmt.Sprintf("(mk_%s 0)", srt)
		}
		var args []string
		for i := range info.fields {
			args = append(args, s.zeroSort(info.fsorts[i], info.st.Field(i).Type()))
		}
		return app("mk_"+srt, args...)
	}
	return "0"
}

// box/unbox function names for a sort (for interface payloads)
func (s *sorter) boxFns(srt string) (string, string, []string) {
	m := mangle(srt)
	var decl []string
	if !s.boxes[m] {
		s.boxes[m] = true
		decl = append(decl, fmt.Sprintf("(declare-fun box_%s (%s) Int)", m, srt), fmt.Sprintf("(declare-fun unbox_%s (Int) %s)", m, srt))
	}
	return "box_" + m, "unbox_" + m, decl
}

// integer range of a basic integer type
func intRange(t types.Type) (lo, hi string, ok bool) {
	b, isB := t.Underlying().(*types.Basic)
	if !isB || b.Info()&types.IsInteger == 0 {
		return "", "", false
	}
	switch b.Kind() {
	case types.Int, types.Int64, types.UntypedInt:
		return "(- 9223372036854775808)", "9223372036854775807", true
	case types.Int32, types.UntypedRune:
		return "(- 2147483648)", "2147483647", true
	case types.Int16:
		return "(- 32768)", "32767", true
	case types.Int8:
		return "(- 128)", "127", true
	case types.Uint, types.Uint64, types.Uintptr:
		return "0", "18446744073709551615", true
	case types.Uint32:
		return "0", "4294967295", true
	case types.Uint16:
		return "0", "65535", true
	case types.Uint8:
		return "0", "255", true
	}
	return "", "", false
}

func isUnsigned(t types.Type) bool {
	b, ok := t.Underlying().(*types.Basic)
	return ok && b.Info()&types.IsUnsigned != 0
}

func intBits(t types.Type) int {
	b, ok := t.Underlying().(*types.Basic)
	if !ok {
		return 64
	}
	switch b.Kind() {
	case types.Int8, types.Uint8:
		return 8
	case types.Int16, types.Uint16:
		return 16
	case types.Int32, types.Uint32:
		return 32
	}
	return 64
}

func pow2(n int) string {
	switch n {
	case 8:
		return "256"
	case 16:
		return "65536"
	case 32:
		return "4294967296"
	case 64:
		return "18446744073709551616"
	case 7:
		return "128"
	case 15:
		return "32768"
	case 31:
		return "2147483648"
	case 63:
		return "9223372036854775808"
	}
	x := int64(1) << uint(n)
	return fmt.Sprint(x)
}

func sortedKeys(m map[string]string) []string {
	var ks []string
	for k := range m {
		ks = append(ks, k)
	}
	sort.Strings(ks)
	return ks
}
