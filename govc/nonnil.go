package main

import (
	"go/types"
	"strings"

	"golang.org/x/tools/go/ssa"
)

// ---------------------------------------------------------------------------
// Data-structure invariants declared with `nonnil` directives (contract files):
//
//   nonnil field  pkg.T.f     every object of type T has a non-nil f   (assumed at loads, checked at stores and allocations)
//   nonnil elems  pkg.T       every element of every []T / [n]T is non-nil (assumed at loads, checked at element stores)
//   nonnil payload pkg.I      a non-nil value of interface type I holds a non-nil pointer (checked at conversions to I)

func (x *vc) nn(kind, key string) bool {
	return x.p.cons.nonnil != nil && x.p.cons.nonnil[kind+" "+key]
}

// nonNilFormula: "v is not nil" for interface, pointer, map, slice and function values
func (x *vc) nonNilFormula(v Val) string {
	if v.T == "" || v.Typ == nil {
		return "true"
	}
	switch x.srt.sortOf(v.Typ) {
	case sIface:
		f := not(eq(v.T, "(mkiface 0 0)"))
		if x.nn("payload", typeKey(v.Typ)) {
			f = and(f, not(eq(app("ival", v.T), "0")))
		}
		return f
	case sInt:
		switch v.Typ.Underlying().(type) {
		case *types.Pointer, *types.Map, *types.Signature:
			return not(eq(v.T, "0"))
		}
	case sSlice:
		return not(eq(app("sl_arr", v.T), "0"))
	}
	return "true"
}

// loadInvariant: facts assumed about a value just loaded through addr
func (x *vc) loadInvariant(st *state, addr ssa.Value, v Val) {
	switch a := addr.(type) {
	case *ssa.FieldAddr:
		if x.nn("field", fieldKey(a.X.Type(), a.Field)) {
			x.assume(st.guard, x.nonNilFormula(v))
		}
		if rg, ok := x.p.cons.fieldRange[fieldKey(a.X.Type(), a.Field)]; ok && v.T != "" {
			x.assume(st.guard, and(app("<=", rg[0], v.T), app("<=", v.T, rg[1])))
		}
		if f := x.fieldPredFormula(st, fieldKey(a.X.Type(), a.Field), v); f != "" {
			x.assume(st.guard, f)
		}
	case *ssa.IndexAddr:
		var et types.Type
		switch t := a.X.Type().Underlying().(type) {
		case *types.Slice:
			et = t.Elem()
		case *types.Pointer:
			if at, ok := t.Elem().Underlying().(*types.Array); ok {
				et = at.Elem()
			}
		}
		if et != nil && x.nn("elems", typeKey(et)) {
			x.assume(st.guard, x.nonNilFormula(v))
		}
	}
}

// storeInvariant: obligations on a value stored through addr. `n.f, err = g()` stores g's first result before err is
// looked at: the invariant may be broken exactly when that call reported an error (the caller then returns the
// error and the structure is dropped), so the obligation is  non-nil OR that error is non-nil.
func (x *vc) storeInvariant(fr *frame, st *state, addr ssa.Value, val ssa.Value, v Val, pos string) {
	excuse := "false"
	if ex, ok := val.(*ssa.Extract); ok && ex.Index == 0 {
		if tup, ok := ex.Tuple.Type().(*types.Tuple); ok && tup.Len() == 2 && types.Identical(tup.At(1).Type(), types.Universe.Lookup("error").Type()) {
			if tv, ok := fr.vals[ex.Tuple]; ok && len(tv.Tuple) == 2 && tv.Tuple[1].T != "" {
				excuse = not(eq(tv.Tuple[1].T, "(mkiface 0 0)"))
			}
		}
	}
	switch a := addr.(type) {
	case *ssa.FieldAddr:
		k := fieldKey(a.X.Type(), a.Field)
		if fr.top && x.topFC != nil {
			for _, as := range x.topFC.atstores {
				if as.field != k {
					continue
				}
				env := x.contractEnv(fr, st, nil)
				env.vars["value"] = v
				x.oblige(st, "storearg", k+"."+as.cl.tag, x.evalBool(env, as.cl.expr), pos, "clause for every store to "+k+": "+as.cl.text, false)
				as.seen = true
			}
		}
		if rg, ok := x.p.cons.fieldRange[k]; ok && v.T != "" {
			x.oblige(st, "fieldrange", "", and(app("<=", rg[0], v.T), app("<=", v.T, rg[1])), pos, "invariant: "+rg[0]+" <= "+k+" <= "+rg[1], true)
		}
		if x.nn("field", k) {
			x.oblige(st, "nonnil", "field", or(x.nonNilFormula(v), excuse), pos, "invariant: field "+k+" is never nil (except when the producing call returned an error)", true)
		}
		if f := x.fieldPredFormula(st, k, v); f != "" {
			x.oblige(st, "fieldpred", "", or(f, excuse), pos, "invariant: "+x.p.cons.fieldPred[k]+"("+k+") holds for every stored value", true)
		}
	case *ssa.IndexAddr:
		var et types.Type
		switch t := a.X.Type().Underlying().(type) {
		case *types.Slice:
			et = t.Elem()
		case *types.Pointer:
			if at, ok := t.Elem().Underlying().(*types.Array); ok {
				et = at.Elem()
			}
		}
		if et != nil && x.nn("elems", typeKey(et)) {
			x.oblige(st, "nonnil", "elem", or(x.nonNilFormula(v), excuse), pos, "invariant: elements of type "+typeKey(et)+" in slices and arrays are never nil (except when the producing call returned an error)", true)
		}
	}
}

// allocInvariant: a freshly allocated struct must have its non-nil fields set in the block that allocates it
func (x *vc) allocInvariant(st *state, al *ssa.Alloc, pos string) {
	pt, ok := al.Type().Underlying().(*types.Pointer)
	if !ok {
		return
	}
	s, ok := pt.Elem().Underlying().(*types.Struct)
	if !ok || x.p.cons.nonnil == nil {
		return
	}
	// a local that is filled by a whole-struct store (copy of an existing value, e.g. a range variable) is not a new object
	for _, ref := range *al.Referrers() {
		if stI, ok := ref.(*ssa.Store); ok && stI.Addr == ssa.Value(al) {
			return
		}
	}
	for i := 0; i < s.NumFields(); i++ {
		k := fieldKey(pt.Elem(), i)
		if !x.nn("field", k) {
			continue
		}
		set := false
		for _, ref := range *al.Referrers() {
			if fa, ok := ref.(*ssa.FieldAddr); ok && fa.Field == i && fa.X == ssa.Value(al) {
				for _, r2 := range *fa.Referrers() {
					if stI, ok := r2.(*ssa.Store); ok && stI.Addr == ssa.Value(fa) && stI.Block() == al.Block() {
						set = true
					}
				}
			}
		}
		if !set {
			x.oblige(st, "nonnil", "init", "false", pos, "invariant: a new "+strings.TrimPrefix(typeKey(pt.Elem()), "*")+" must set its field "+s.Field(i).Name()+" (declared never nil) where it is allocated", true)
		}
	}
}
