package jsonata

// Witness for the defect found by obligation jxpath.formatHour:callarg@formatIntegerComponent#0.C19:twelve-hour-clock-12-1-11
// (property C19): the 12-hour clock component [h] only subtracts 12 from hours above 12, so midnight is shown as
// 0 instead of 12: $fromMillis(0, "[h]:[m] [P]") is "0:00 am". Repaired by the commit recorded in known_findings.jsonl.

import (
	"testing"
)

func TestWitnessC19TwelveHourClock(t *testing.T) {
	for prog, want := range map[string]string{
		`$fromMillis(0, "[h]:[m] [P]")`:        "12:00 am",
		`$fromMillis(3600000, "[h]:[m] [P]")`:  "1:00 am",
		`$fromMillis(43200000, "[h]:[m] [P]")`: "12:00 pm",
		`$fromMillis(46800000, "[h]:[m] [P]")`: "1:00 pm",
		`$fromMillis(82800000, "[h]:[m] [P]")`: "11:00 pm",
		`$fromMillis(0, "[H]:[m]")`:            "0:00",
	} {
		v, err := MustCompile(prog).Eval(nil)
		if err != nil {
			t.Fatalf("%s: %v", prog, err)
		}
		if v != want {
			t.Fatalf("WITNESS: %s = %v, want %s", prog, v, want)
		}
	}
}
