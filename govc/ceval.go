package main

import (
	"fmt"
	"go/ast"
	"go/constant"
	"go/token"
	"go/types"
	"strconv"
	"strings"

	"golang.org/x/tools/go/ssa"
)

// ---------------------------------------------------------------------------
// Evaluation of contract expressions into SMT terms

type cenv struct {
	x     *vc
	vars  map[string]Val
	st    *state
	old   *state
	pkg   *types.Package
	fr    *frame
	hdr   *ssa.BasicBlock
	bound map[string]Val
	depth int
	// skipParams: resolveLocal ignores definitions that are the parameter itself
	skipParams bool
	inOld      bool // inside old(...): names mean entry values
	// fvCells: captured variables held by address (name -> pointer to the cell)
	fvCells map[string]Val
}

type cevalErr struct{ msg string }

func (x *vc) cfail(format string, args ...interface{}) {
	panic(cevalErr{fmt.Sprintf(format, args...)})
}

// contractEnv builds the environment for evaluating contract clauses of frame fr in state st.
func (x *vc) contractEnv(fr *frame, st *state, hdr *ssa.BasicBlock) *cenv {
	env := &cenv{x: x, vars: map[string]Val{}, st: st, old: fr.entry, pkg: fr.fn.Pkg.Pkg, fr: fr, hdr: hdr}
	for i, p := range fr.fn.Params {
		if v, ok := fr.vals[p]; ok {
			env.vars[p.Name()] = v
			env.vars[fmt.Sprintf("arg%d", i)] = v // positional names used by functype / iface contracts
		}
	}
	for _, fv := range fr.fn.FreeVars {
		if v, ok := fr.vals[fv]; ok {
			// captured variables are held by address; in contracts the source name means the variable's value
			if _, isPtr := fv.Type().Underlying().(*types.Pointer); isPtr && v.T != "" {
				env.vars[fv.Name()] = x.load(st, v)
				if env.fvCells == nil {
					env.fvCells = map[string]Val{}
				}
				env.fvCells[fv.Name()] = v
			} else {
				env.vars[fv.Name()] = v
			}
		}
	}
	aliasRenamed(fr.fn, env) // a renamed parameter or captured variable keeps the name the contract was written with
	// "self": the function itself as a value (function-type contracts relate it to dispatch tables)
	env.vars["self"] = x.value(fr, st, fr.fn)
	return env
}

func (x *vc) evalBool(env *cenv, e *cexpr) string {
	v := x.eval(env, e)
	if v.T == "" {
		x.cfail("expression %s has no value", e)
	}
	return v.T
}

func (x *vc) evalInt(env *cenv, e *cexpr) string {
	return x.eval(env, e).T
}

var intT = types.Typ[types.Int]
var boolT = types.Typ[types.Bool]

func (x *vc) resolveLocal(env *cenv, name string) (Val, bool) {
	fr := env.fr
	if fr == nil {
		return Val{}, false
	}
	// phi at the loop header with that source name
	if env.hdr != nil {
		for _, instr := range env.hdr.Instrs {
			phi, ok := instr.(*ssa.Phi)
			if !ok {
				break
			}
			if phi.Comment == name {
				if v, ok := fr.vals[phi]; ok {
					return v, true
				}
			}
		}
	}
	defs := fr.named[name]
	// prefer the closest dominating definition
	var best *namedDef
	defBlock := func(d *namedDef) *ssa.BasicBlock {
		// the block in which the *value* is defined (a later DebugRef may mention a value defined earlier)
		if in, ok := d.v.(ssa.Instruction); ok && in.Block() != nil {
			return in.Block()
		}
		return fr.fn.Blocks[0]
	}
	isZeroConst := func(d *namedDef) bool { _, ok := d.v.(*ssa.Const); return ok }
	// a variable that lives in memory (address taken, captured by a closure): its value is what the cell holds now,
	// not the value some earlier statement stored into it
	for _, b := range fr.fn.Blocks {
		for _, in := range b.Instrs {
			al, ok := in.(*ssa.Alloc)
			if !ok || al.Comment != name {
				continue
			}
			if v, computed := fr.vals[al]; computed && v.T != "" && (env.hdr == nil || b.Dominates(env.hdr)) {
				return x.load(env.st, v), true
			}
		}
	}
	for i := range defs {
		d := &defs[i]
		if _, isParam := d.v.(*ssa.Parameter); isParam && env.skipParams {
			continue
		}
		if _, isPhi := d.v.(*ssa.Phi); isPhi && env.hdr != nil && defBlock(d) != env.hdr && !defBlock(d).Dominates(env.hdr) {
			continue
		}
		// in-body clauses (atif, atstore, atcall): only definitions that reach the point of evaluation on every path
		if env.hdr == nil && fr.curBlock != nil && !defBlock(d).Dominates(fr.curBlock) {
			continue
		}
		if env.hdr != nil && !(defBlock(d).Dominates(env.hdr)) {
			continue
		}
		if _, isC := d.v.(*ssa.Const); !isC {
			if _, computed := fr.vals[d.v]; !computed {
				continue // not executed yet on this path
			}
		}
		if best == nil || (isZeroConst(best) && !isZeroConst(d)) || (isZeroConst(best) == isZeroConst(d) && defBlock(best).Dominates(defBlock(d))) {
			best = d
		}
	}
	if best != nil {
		v, ok := fr.vals[best.v]
		if _, isConst := best.v.(*ssa.Const); isConst && !ok {
			v, ok = x.value(fr, env.st, best.v), true
		}
		if !ok {
			return Val{}, false
		}
		if best.addr {
			return x.load(env.st, v), true
		}
		return v, true
	}
	// phis of dominating blocks
	if env.hdr != nil {
		for b := env.hdr.Idom(); b != nil; b = b.Idom() {
			for _, instr := range b.Instrs {
				phi, ok := instr.(*ssa.Phi)
				if !ok {
					break
				}
				if phi.Comment == name {
					if v, ok := fr.vals[phi]; ok {
						return v, true
					}
				}
			}
		}
	}
	return Val{}, false
}

func (x *vc) eval(env *cenv, e *cexpr) Val {
	switch e.op {
	case "int":
		n, err := strconv.ParseInt(e.name, 0, 64)
		if err != nil {
			return Val{T: e.name, Typ: types.Typ[types.UntypedInt]}
		}
		return Val{T: smtInt(n), Typ: types.Typ[types.UntypedInt]}
	case "float":
		f, _ := strconv.ParseFloat(e.name, 64)
		return Val{T: f64Lit(f), Typ: types.Typ[types.Float64]}
	case "str":
		return x.strLit(e.name)
	case "id":
		return x.evalIdent(env, e.name)
	case "sel":
		// package-qualified name?
		if e.args[0].op == "id" {
			if _, isVar := env.vars[e.args[0].name]; !isVar {
				if _, isBound := env.bound[e.args[0].name]; !isBound {
					if v, ok := x.pkgQualified(env, e.args[0].name, e.name); ok {
						return v
					}
				}
			}
		}
		base := x.eval(env, e.args[0])
		return x.selField(env, base, e.name, e)
	case "idx":
		base := x.eval(env, e.args[0])
		idx := x.eval(env, e.args[1])
		return x.idxVal(env, base, idx, e)
	case "slice":
		base := x.eval(env, e.args[0])
		lo, hi := "0", ""
		if e.args[1] != nil {
			lo = x.eval(env, e.args[1]).T
		}
		switch x.srt.sortOf(base.Typ) {
		case sStr:
			if e.args[2] != nil {
				hi = x.eval(env, e.args[2]).T
			} else {
				hi = app("slen", base.T)
			}
			return Val{T: app("substr", base.T, lo, hi), Typ: base.Typ}
		case sSlice:
			if e.args[2] != nil {
				hi = x.eval(env, e.args[2]).T
			} else {
				hi = app("sl_len", base.T)
			}
			return Val{T: app("mkslice", app("sl_arr", base.T), app("+", app("sl_off", base.T), lo), app("-", hi, lo), app("-", app("sl_cap", base.T), lo)), Typ: base.Typ}
		}
		x.cfail("cannot slice %s", e.args[0])
	case "not":
		return Val{T: not(x.evalBool(env, e.args[0])), Typ: boolT}
	case "neg":
		v := x.eval(env, e.args[0])
		if x.srt.sortOf(v.Typ) == sF64 {
			return Val{T: app("fp.neg", v.T), Typ: v.Typ}
		}
		return Val{T: app("-", v.T), Typ: v.Typ}
	case "&&":
		return Val{T: and(x.evalBool(env, e.args[0]), x.evalBool(env, e.args[1])), Typ: boolT}
	case "||":
		return Val{T: or(x.evalBool(env, e.args[0]), x.evalBool(env, e.args[1])), Typ: boolT}
	case "==>":
		return Val{T: implies(x.evalBool(env, e.args[0]), x.evalBool(env, e.args[1])), Typ: boolT}
	case "<==>":
		return Val{T: eq(x.evalBool(env, e.args[0]), x.evalBool(env, e.args[1])), Typ: boolT}
	case "ite":
		c := x.evalBool(env, e.args[0])
		a := x.eval(env, e.args[1])
		b := x.eval(env, e.args[2])
		t := a.Typ
		if isUntyped(t) {
			t = b.Typ
		}
		return Val{T: ite(c, a.T, b.T), Typ: t}
	case "==", "!=":
		a := x.eval(env, e.args[0])
		b := x.eval(env, e.args[1])
		r := x.eqVals(env, a, b, e)
		if e.op == "!=" {
			r = not(r)
		}
		return Val{T: r, Typ: boolT}
	case "<", "<=", ">", ">=":
		a := x.eval(env, e.args[0])
		b := x.eval(env, e.args[1])
		if x.srt.sortOf(a.Typ) == sF64 || x.srt.sortOf(b.Typ) == sF64 {
			a, b = x.toF64(a), x.toF64(b)
			m := map[string]string{"<": "fp.lt", "<=": "fp.leq", ">": "fp.gt", ">=": "fp.geq"}
			return Val{T: app(m[e.op], a.T, b.T), Typ: boolT}
		}
		return Val{T: app(e.op, a.T, b.T), Typ: boolT}
	case "+", "-", "*", "/", "%":
		a := x.eval(env, e.args[0])
		b := x.eval(env, e.args[1])
		if x.srt.sortOf(a.Typ) == sF64 || x.srt.sortOf(b.Typ) == sF64 {
			a, b = x.toF64(a), x.toF64(b)
			m := map[string]string{"+": "fp.add RNE", "-": "fp.sub RNE", "*": "fp.mul RNE", "/": "fp.div RNE"}
			return Val{T: app(x.fpOp(m[e.op]), a.T, b.T), Typ: types.Typ[types.Float64]}
		}
		t := a.Typ
		if isUntyped(t) {
			t = b.Typ
		}
		switch e.op {
		case "/":
			return Val{T: app("go_div", a.T, b.T), Typ: t}
		case "%":
			return Val{T: app("go_mod", a.T, b.T), Typ: t}
		}
		return Val{T: app(e.op, a.T, b.T), Typ: t}
	case "forallkeys", "existskeys":
		m := x.eval(env, e.args[0])
		mt, ok := m.Typ.Underlying().(*types.Map)
		if !ok {
			x.cfail("forall k in keys(m): m must be a map")
		}
		d, _, _ := x.mapArrs(env.st, mt)
		bv := fmt.Sprintf("q_%s!%d", mangle(e.name), x.fresh)
		x.fresh++
		sub := *env
		sub.bound = map[string]Val{}
		for k, v := range env.bound {
			sub.bound[k] = v
		}
		sub.bound[e.name] = Val{T: bv, Typ: mt.Key()}
		strKeyed := x.srt.sortOf(mt.Key()) == sStr
		if strKeyed {
			// string-keyed maps are indexed by content identifiers (strkey): quantify over the identifiers; the key as a
			// string is keystr(id), with strkey(keystr(id)) = id
			sub.bound[e.name] = Val{T: app("keystr", bv), Typ: mt.Key()}
		}
		body := x.evalBool(&sub, e.args[1])
		// keys(old(m)): the key set m had on entry
		domSt := env.st
		if e.args[0].op == "call" && e.args[0].name == "old" && env.old != nil {
			domSt = env.old
			x.mapArrs(domSt, mt)
		}
		in := and(not(eq(m.T, "0")), app("select", app("select", domSt.heap[d], m.T), x.mapKey(mt, sub.bound[e.name].T)))
		ks := x.mapKeySort(mt)
		if e.op == "forallkeys" {
			return Val{T: fmt.Sprintf("(forall ((%s %s)) %s)", bv, ks, implies(in, body)), Typ: boolT}
		}
		return Val{T: fmt.Sprintf("(exists ((%s %s)) %s)", bv, ks, and(in, body)), Typ: boolT}
	case "forall", "exists":
		lo := x.eval(env, e.args[0]).T
		hi := x.eval(env, e.args[1]).T
		bv := fmt.Sprintf("q_%s!%d", mangle(e.name), x.fresh)
		x.fresh++
		sub := *env
		sub.bound = map[string]Val{}
		for k, v := range env.bound {
			sub.bound[k] = v
		}
		sub.bound[e.name] = Val{T: bv, Typ: intT}
		body := x.evalBool(&sub, e.args[2])
		rng := and(app("<=", lo, bv), app("<", bv, hi))
		if e.op == "forall" {
			// forall a: forall b: P  is emitted as one quantifier over (a, b): nested quantifiers are only instantiated
			// outside-in, which E-matching rarely manages when the triggers mention both variables
			const pfx = "(forall ("
			if strings.HasPrefix(body, pfx) {
				if k := strings.Index(body, ")) (=> "); k > 0 && !strings.Contains(body[:k], ":pattern") {
					inner := body[len(pfx) : k+1] // "(q Int) (r Int)"
					rest := body[k+3 : len(body)-1] // "(=> rng body)"
					if strings.HasPrefix(rest, "(=> ") {
						return Val{T: fmt.Sprintf("(forall ((%s Int) %s) (=> %s %s)", bv, inner, rng, rest[4:]), Typ: boolT}
					}
				}
			}
			return Val{T: fmt.Sprintf("(forall ((%s Int)) %s)", bv, implies(rng, body)), Typ: boolT}
		}
		return Val{T: fmt.Sprintf("(exists ((%s Int)) %s)", bv, and(rng, body)), Typ: boolT}
	case "call":
		return x.evalCall(env, e)
	}
	x.cfail("unsupported contract expression %s", e)
	return Val{}
}

// callKey renders the first argument of ret(...): an expression that spells "callee#k" is not parseable as such,
// so it is written  ret(eval_0, 0)  or  ret("eval#0", 0)
func callKey(e *cexpr) string {
	switch e.op {
	case "str":
		return e.name
	case "id":
		if k := strings.LastIndex(e.name, "_"); k > 0 {
			return e.name[:k] + "#" + e.name[k+1:]
		}
		return e.name
	case "sel":
		return callKey(e.args[0]) + "." + callKey(&cexpr{op: "id", name: e.name})
	}
	return e.String()
}

func isUntyped(t types.Type) bool {
	if t == nil {
		return true
	}
	b, ok := t.(*types.Basic)
	return ok && b.Info()&types.IsUntyped != 0
}

func (x *vc) toF64(v Val) Val {
	if x.srt.sortOf(v.Typ) == sF64 {
		return v
	}
	return Val{T: app("(_ to_fp 11 53) RNE", app("to_real", v.T)), Typ: types.Typ[types.Float64]}
}

func (x *vc) evalIdent(env *cenv, name string) Val {
	if v, ok := env.bound[name]; ok {
		return v
	}
	// a captured variable (held by address): its value in the state the expression is evaluated in (the entry state
	// inside old(...))
	if cell, ok := env.fvCells[name]; ok && env.st != nil {
		return x.load(env.st, cell)
	}
	if env.hdr != nil && env.fr != nil {
		// "$pos": byte offset of the string range iterator of this loop
		if name == "$pos" {
			for _, instr := range env.hdr.Instrs {
				if nx, ok := instr.(*ssa.Next); ok && nx.IsString {
					if it, ok := env.fr.vals[nx.Iter]; ok && it.Iter != nil && !it.Iter.isMap {
						cn, _ := x.cellArr(env.st, types.Typ[types.Int])
						return Val{T: x.loadLV(env.st, &lvalue{arr: cn, ref: it.Iter.cell}), Typ: intT}
					}
				}
			}
			x.cfail("$pos: this loop does not range over a string")
		}
		// "$i<k>": the hidden index of range loop k (index of the element processed last; -1 before the first)
		if strings.HasPrefix(name, "$i") {
			if k, err := strconv.Atoi(name[2:]); err == nil {
				for _, l := range env.fr.loops {
					if l.ordinal != k {
						continue
					}
					for _, instr := range l.header.Instrs {
						if phi, ok := instr.(*ssa.Phi); ok && phi.Comment == "rangeindex" {
							if v, ok := env.fr.vals[phi]; ok {
								return v
							}
						}
					}
				}
				x.cfail("%s: loop %d is not a range loop over a slice or array (or not entered yet)", name, k)
			}
		}
		// a variable re-assigned in the loop (phi at the header) shadows the parameter of the same name
		for _, instr := range env.hdr.Instrs {
			phi, ok := instr.(*ssa.Phi)
			if !ok {
				break
			}
			if phi.Comment == name {
				if v, ok := env.fr.vals[phi]; ok {
					return v
				}
			}
		}
		// a parameter re-assigned before the loop (`v = f(v)`): inside the loop the name means the current value;
		// the entry value is old(v)
		if _, isParam := env.vars[name]; isParam {
			env.skipParams = true
			v, ok := x.resolveLocal(env, name)
			env.skipParams = false
			if ok {
				return v
			}
		}
	}
	// in-body clauses (atif, atcall, atstore) speak about the state at that point: a re-assigned parameter has its
	// current value there (old(v) is the entry value). Postconditions keep the entry meaning (curBlock is nil then).
	if env.hdr == nil && !env.inOld && env.fr != nil && env.fr.curBlock != nil && env.fr.top {
		if _, isParam := env.vars[name]; isParam && !strings.HasPrefix(name, "callee_") {
			env.skipParams = true
			v, ok := x.resolveLocal(env, name)
			env.skipParams = false
			if ok {
				return v
			}
		}
	}
	if v, ok := env.vars[name]; ok {
		return v
	}
	switch name {
	case "true":
		return Val{T: "true", Typ: boolT}
	case "false":
		return Val{T: "false", Typ: boolT}
	case "nil":
		return Val{Nil: true}
	case "MaxInt64":
		return Val{T: "9223372036854775807", Typ: types.Typ[types.UntypedInt]}
	case "MinInt64":
		return Val{T: "(- 9223372036854775808)", Typ: types.Typ[types.UntypedInt]}
	}
	if v, ok := x.resolveLocal(env, name); ok {
		return v
	}
	if v, ok := x.pkgObject(env, env.pkg, name); ok {
		return v
	}
	// a renamed local: the baseline name stands for the variable declared at the same ordinal now (alias.go)
	if env.fr != nil {
		if nn := renamedLocals(env.fr.fn)[name]; nn != "" && nn != name {
			return x.evalIdent(env, nn)
		}
	}
	known := ""
	if env.fr != nil {
		for k := range env.fr.named {
			known += " " + k
		}
		for _, d := range env.fr.named[name] {
			_, has := env.fr.vals[d.v]
			known += fmt.Sprintf(" [def %s in b%d has=%v hdr=%v]", d.v.Name(), d.blk.Index, has, env.hdr != nil)
		}
	}
	x.cfail("unknown identifier %q (locals in scope:%s)", name, known)
	return Val{}
}

func (x *vc) pkgQualified(env *cenv, pkgName, name string) (Val, bool) {
	for _, imp := range env.pkg.Imports() {
		if imp.Name() == pkgName {
			return x.pkgObject(env, imp, name)
		}
	}
	for _, sp := range x.p.spkgs {
		if sp.Pkg.Name() == pkgName {
			return x.pkgObject(env, sp.Pkg, name)
		}
	}
	return Val{}, false
}

func (x *vc) pkgObject(env *cenv, pkg *types.Package, name string) (Val, bool) {
	obj := pkg.Scope().Lookup(name)
	if obj == nil {
		return Val{}, false
	}
	switch o := obj.(type) {
	case *types.Const:
		return x.constantVal(o.Val(), o.Type()), true
	case *types.Var:
		if sp := x.p.prog.Package(pkg); sp != nil {
			if g, ok := sp.Members[name].(*ssa.Global); ok {
				if gv, ok2 := x.globalValue(env.fr, env.st, g); ok2 {
					return gv, true
				}
				return x.load(env.st, Val{T: x.globalRef(g), Typ: g.Type()}), true
			}
		}
	}
	return Val{}, false
}

func (x *vc) constantVal(cv constant.Value, t types.Type) Val {
	switch cv.Kind() {
	case constant.Bool:
		if constant.BoolVal(cv) {
			return Val{T: "true", Typ: t}
		}
		return Val{T: "false", Typ: t}
	case constant.Int:
		return Val{T: smtBigInt(cv.ExactString()), Typ: t}
	case constant.String:
		v := x.strLit(constant.StringVal(cv))
		v.Typ = t
		return v
	case constant.Float:
		f, _ := constant.Float64Val(cv)
		return Val{T: f64Lit(f), Typ: t}
	}
	return Val{}
}

func (x *vc) selField(env *cenv, base Val, name string, e *cexpr) Val {
	if base.Typ == nil {
		x.cfail("selector %s on untyped value", e)
	}
	t := base.Typ
	if pt, ok := t.Underlying().(*types.Pointer); ok {
		st, ok := pt.Elem().Underlying().(*types.Struct)
		if !ok {
			x.cfail("selector %s on pointer to non-struct", e)
		}
		for i := 0; i < st.NumFields(); i++ {
			if st.Field(i).Name() == name {
				if base.LV != nil && base.LV.arr != "" {
					lv := *base.LV
					lv.path = append(append([]pathElem{}, lv.path...), pathElem{field: i, sinfo: x.srt.structInfo[x.srt.sortOf(pt.Elem())]})
					return Val{T: x.loadLV(env.st, &lv), Typ: st.Field(i).Type()}
				}
				an, as, ft := x.fieldArr(env.st, pt.Elem(), i)
				rd := app("select", x.heapArr(env.st, an, as), base.T)
				if len(env.bound) == 0 {
					// values stored in a typed heap location satisfy their type's representation invariant
					x.assume("true", x.typeInv(rd, ft, nil))
					if rg, ok := x.p.cons.fieldRange[fieldKey(pt.Elem(), i)]; ok && base.T != "" {
						x.assume("true", implies(not(eq(base.T, "0")), and(app("<=", rg[0], rd), app("<=", rd, rg[1]))))
					}
					if x.nn("field", fieldKey(pt.Elem(), i)) && base.T != "" {
						// declared data-structure invariant (holds for every existing object of the type)
						x.assume("true", implies(not(eq(base.T, "0")), x.nonNilFormula(Val{T: rd, Typ: ft})))
					}
				}
				return Val{T: rd, Typ: ft}
			}
		}
		x.cfail("no field %s in %v", name, pt.Elem())
	}
	if st, ok := t.Underlying().(*types.Struct); ok {
		info := x.srt.structInfo[x.srt.sortOf(t)]
		for i := 0; i < st.NumFields(); i++ {
			if st.Field(i).Name() == name {
				if info == nil {
					x.cfail("opaque struct %v", t)
				}
				return Val{T: app(info.fields[i], base.T), Typ: st.Field(i).Type()}
			}
		}
		x.cfail("no field %s in %v", name, t)
	}
	x.cfail("selector %s on %v", e, t)
	return Val{}
}

func (x *vc) idxVal(env *cenv, base, idx Val, e *cexpr) Val {
	switch bt := base.Typ.Underlying().(type) {
	case *types.Basic:
		return Val{T: app("sbyte", base.T, idx.T), Typ: types.Typ[types.Uint8]}
	case *types.Slice:
		name, srt := x.elemArr(env.st, bt.Elem())
		return Val{T: app("select", app("select", x.heapArr(env.st, name, srt), app("sl_arr", base.T)), app("+", app("sl_off", base.T), idx.T)), Typ: bt.Elem()}
	case *types.Array:
		return Val{T: app("select", base.T, idx.T), Typ: bt.Elem()}
	case *types.Map:
		_, va, _ := x.mapArrs(env.st, bt)
		return Val{T: app("select", app("select", env.st.heap[va], base.T), x.mapKey(bt, idx.T)), Typ: bt.Elem()}
	}
	x.cfail("cannot index %s", e)
	return Val{}
}

func (x *vc) eqVals(env *cenv, a, b Val, e *cexpr) string {
	if a.Nil && b.Nil {
		return "true"
	}
	if b.Nil {
		a, b = b, a
	}
	if a.Nil {
		switch x.srt.sortOf(b.Typ) {
		case sIface:
			return eq(b.T, "(mkiface 0 0)")
		case sSlice:
			return eq(app("sl_arr", b.T), "0")
		default:
			if b.Fn != nil {
				return "false"
			}
			return eq(b.T, "0")
		}
	}
	sa, sb := x.srt.sortOf(a.Typ), x.srt.sortOf(b.Typ)
	if isUntyped(a.Typ) {
		sa = sb
	}
	switch sa {
	case sStr:
		return x.strEq(a, b)
	case sF64:
		return app("fp.eq", x.toF64(a).T, x.toF64(b).T)
	}
	return eq(a.T, b.T)
}

func (x *vc) evalCall(env *cenv, e *cexpr) Val {
	switch e.name {
	case "old":
		sub := *env
		sub.st = env.old
		sub.hdr = nil // entry values: loop variables do not exist yet
		sub.inOld = true
		return x.eval(&sub, e.args[0])
	case "len":
		v := x.eval(env, e.args[0])
		switch v.Typ.Underlying().(type) {
		case *types.Basic:
			return Val{T: app("slen", v.T), Typ: intT}
		case *types.Slice:
			return Val{T: app("sl_len", v.T), Typ: intT}
		case *types.Array:
			return Val{T: smtInt(v.Typ.Underlying().(*types.Array).Len()), Typ: intT}
		case *types.Map:
			_, _, l := x.mapArrs(env.st, v.Typ.Underlying().(*types.Map))
			return Val{T: ite(eq(v.T, "0"), "0", app("select", env.st.heap[l], v.T)), Typ: intT}
		}
		x.cfail("len of %v", v.Typ)
	case "cap":
		v := x.eval(env, e.args[0])
		return Val{T: app("sl_cap", v.T), Typ: intT}
	case "runeAt": // runeAt(s, i): rune decoded at byte offset i
		s := x.eval(env, e.args[0])
		i := x.eval(env, e.args[1])
		return Val{T: app("str_rune", s.T, i.T), Typ: types.Typ[types.Rune]}
	case "widthAt":
		s := x.eval(env, e.args[0])
		i := x.eval(env, e.args[1])
		return Val{T: app("str_width", s.T, i.T), Typ: intT}
	case "runeCount":
		s := x.eval(env, e.args[0])
		x.needRuneCount()
		return Val{T: app("rune_count", s.T), Typ: intT}
	case "runeStart": // runeStart(s, p): a rune of s starts at byte offset p
		s := x.eval(env, e.args[0])
		p := x.eval(env, e.args[1])
		x.needRuneCount()
		x.needRunesBefore()
		return Val{T: app("rune_start", s.T, p.T), Typ: boolT}
	case "runesBefore": // runesBefore(s, p): number of runes that start before byte offset p (p on a rune boundary)
		s := x.eval(env, e.args[0])
		p := x.eval(env, e.args[1])
		x.needRuneCount()
		x.needRunesBefore()
		return Val{T: app("runes_before", s.T, p.T), Typ: intT}
	case "typeis": // typeis(x, "*Error")
		v := x.eval(env, e.args[0])
		if e.args[1].op != "str" {
			x.cfail("typeis needs a string literal type name")
		}
		t := x.lookupType(env.pkg, e.args[1].name)
		if t == nil {
			x.cfail("unknown type %s", e.args[1].name)
		}
		x.kindFact(t) // what reflect says about values of that dynamic type
		return Val{T: eq(app("itag", v.T), smtInt(int64(x.srt.typeID(t)))), Typ: boolT}
	case "rtimpl": // rtimpl(t, "I"): the type with identifier t implements interface type I (reflect.Type.Implements; type assertions to I)
		tv := x.eval(env, e.args[0])
		if e.args[1].op != "str" {
			x.cfail("rtimpl needs a string literal interface type name")
		}
		it := x.lookupType(env.pkg, e.args[1].name)
		if it == nil {
			x.cfail("unknown type %s", e.args[1].name)
		}
		x.kindFact(it)
		return Val{T: app("rt_implements", tv.T, smtInt(int64(x.srt.typeID(it)))), Typ: boolT}
	case "ptrto": // ptrto(t): the identifier of the pointer type to the type with identifier t
		tv := x.eval(env, e.args[0])
		x.kindFact(types.Typ[types.Int]) // makes sure the reflect prelude (rt_ptrto) is included
		return Val{T: app("rt_ptrto", tv.T), Typ: intT}
	case "dyn": // dyn(x, "*Error"): payload of interface x viewed as type
		v := x.eval(env, e.args[0])
		t := x.lookupType(env.pkg, e.args[1].name)
		if t == nil {
			x.cfail("unknown type %s", e.args[1].name)
		}
		return Val{T: x.unbox(v, t), Typ: t}
	case "isNaN":
		return Val{T: app("fp.isNaN", x.eval(env, e.args[0]).T), Typ: boolT}
	case "isInf":
		return Val{T: app("fp.isInfinite", x.eval(env, e.args[0]).T), Typ: boolT}
	case "finite":
		v := x.eval(env, e.args[0]).T
		return Val{T: and(not(app("fp.isNaN", v)), not(app("fp.isInfinite", v))), Typ: boolT}
	case "floor":
		return Val{T: app("fp.roundToIntegral RTN", x.eval(env, e.args[0]).T), Typ: types.Typ[types.Float64]}
	case "ifloor": // the integer floor(x) of a finite float64 (unspecified for NaN / infinities)
		// spelled as the conversion int(math.Floor(x)) so that code computing it that way matches by congruence; the
		// conversion's meaning (exact in range, platform value outside) is the assumption made where code converts
		x.needDecl("(declare-fun f2i (F64) Int)")
		return Val{T: app("f2i", app("fp.roundToIntegral RTN", x.eval(env, e.args[0]).T)), Typ: intT}
	case "trunc":
		return Val{T: app("fp.roundToIntegral RTZ", x.eval(env, e.args[0]).T), Typ: types.Typ[types.Float64]}
	case "real":
		v := x.eval(env, e.args[0])
		return Val{T: app("to_real", v.T), Typ: nil}
	case "f64":
		v := x.eval(env, e.args[0])
		return x.toF64(v)
	case "fresh": // fresh(p): p was allocated during the call
		v := x.eval(env, e.args[0])
		ref := v.T
		if x.srt.sortOf(v.Typ) == sSlice {
			ref = app("sl_arr", v.T)
		}
		if env.old.nextRef == "" {
			return Val{T: "true", Typ: boolT}
		}
		return Val{T: app(">=", ref, env.old.nextRef), Typ: boolT}
	case "alloc": // alloc(p): p is nil or an object that exists in the current state (allocated before now)
		v := x.eval(env, e.args[0])
		ref := v.T
		if x.srt.sortOf(v.Typ) == sSlice {
			ref = app("sl_arr", v.T)
		}
		if env.st.nextRef == "" {
			return Val{T: "true", Typ: boolT}
		}
		return Val{T: app("<", ref, env.st.nextRef), Typ: boolT}
	case "local": // local(p): p is an object of a non-escaping allocation site of this activation (no callee can reach it)
		if env.hdr == nil {
			x.cfail("local(x) may only be used in loop invariants (where it is proved before it is assumed)")
		}
		v := x.eval(env, e.args[0])
		ref := v.T
		if x.srt.sortOf(v.Typ) == sSlice {
			ref = app("sl_arr", v.T)
		}
		x.needLocalobj()
		return Val{T: localAny(ref), Typ: boolT}
	case "kind", "valid", "rvlen", "elemof", "isnil", "canif", "canaddr", "canset", "fval", "sval", "bval", "res", "rvtype", "rvnumfield":
		// observers of the reflect.Value model
		v := x.eval(env, e.args[0])
		m := map[string][2]string{"kind": {"rv_kind", "int"}, "valid": {"rv_valid", "bool"}, "rvlen": {"rv_len", "int"}, "elemof": {"rv_elem", "rv"}, "isnil": {"rv_isnil", "bool"},
			"canif": {"rv_canif", "bool"}, "canaddr": {"rv_canaddr", "bool"}, "canset": {"rv_canset", "bool"}, "fval": {"rv_float", "f64"}, "sval": {"rv_str", "str"}, "bval": {"rv_bool", "bool"},
			"res": {"rv_resolve", "rv"}, "rvtype": {"rv_type", "int"}, "rvnumfield": {"rv_numfield", "int"}}[e.name]
		var t types.Type
		switch m[1] {
		case "int":
			t = intT
		case "bool":
			t = boolT
		case "f64":
			t = types.Typ[types.Float64]
		case "str":
			t = types.Typ[types.String]
		case "rv":
			t = v.Typ
		}
		return Val{T: app(m[0], v.T), Typ: t}
	case "fmod", "fpow": // the library functions math.Mod / math.Pow (uninterpreted, trusted)
		fn := map[string]string{"fmod": "math_mod", "fpow": "math_pow"}[e.name]
		x.needDecl(fmt.Sprintf("(declare-fun %s (F64 F64) F64)", fn))
		a := x.toF64(x.eval(env, e.args[0]))
		b := x.toF64(x.eval(env, e.args[1]))
		return Val{T: app(fn, a.T, b.T), Typ: types.Typ[types.Float64]}
	case "ret": // ret(callee#k, i): i-th result of the k-th call (in generation order) to a callee under contract
		if len(e.args) != 2 || e.args[1].op != "int" {
			x.cfail("ret(callee#k, i): bad arguments")
		}
		key := callKey(e.args[0])
		v, ok := x.callRes[key]
		if !ok {
			x.cfail("ret: the function makes no call %s", key)
		}
		i, _ := strconv.Atoi(e.args[1].name)
		if len(v.Tuple) > 0 {
			if i >= len(v.Tuple) {
				x.cfail("ret: %s has no result %d", key, i)
			}
			return v.Tuple[i]
		}
		return v
	case "depth": // depth(v): length of the Interface/Ptr chain below v (finite: values are acyclic; trusted)
		v := x.eval(env, e.args[0])
		return Val{T: app("rv_depth", v.T), Typ: intT}
	case "at": // at(v, i): i-th element of an array-like reflect.Value
		v := x.eval(env, e.args[0])
		i := x.eval(env, e.args[1])
		return Val{T: app("rv_index", v.T, i.T), Typ: v.Typ}
	case "calls": // calls("callee#k"): how often that call site has been executed so far in this activation (ghost counter)
		if len(e.args) != 1 || e.args[0].op != "str" {
			x.cfail("calls(\"callee#k\"): bad argument")
		}
		return Val{T: x.counter(env.st, e.args[0].name), Typ: intT}
	case "mapat": // mapat(v, k): v.MapIndex(k) of a map-kinded reflect.Value
		v := x.eval(env, e.args[0])
		k := x.eval(env, e.args[1])
		return Val{T: app("rv_mapindex", v.T, k.T), Typ: v.Typ}
	case "fieldat": // fieldat(v, i): v.Field(i) of a struct-kinded reflect.Value
		v := x.eval(env, e.args[0])
		i := x.eval(env, e.args[1])
		return Val{T: app("rv_field", v.T, i.T), Typ: v.Typ}
	case "ifaceof": // ifaceof(v): v.Interface() as a term (the interface value a reflect.Value was made from / would yield)
		v := x.eval(env, e.args[0])
		// the interface value of a valid non-Interface Value carries the Value's type (instance of the Interface model)
		if len(env.bound) == 0 || !mentionsBound(v.T, env.bound) {
			x.assume("true", implies(and(not(eq(app("rv_kind", v.T), "0")), not(eq(app("rv_kind", v.T), "20"))), eq(app("itag", app("rv_iface", v.T)), app("rv_type", v.T))))
		}
		return Val{T: app("rv_iface", v.T), Typ: types.NewInterfaceType(nil, nil)}
	case "rvof": // rvof(x): reflect.ValueOf(x)
		v := x.eval(env, e.args[0])
		var rvT types.Type
		for _, pk := range x.p.prog.AllPackages() {
			if pk.Pkg.Path() == "reflect" {
				if o := pk.Pkg.Scope().Lookup("Value"); o != nil {
					rvT = o.Type()
				}
			}
		}
		return Val{T: app("rv_of", v.T), Typ: rvT}
	case "frame": // frame(x): the heap arrays that hold x's kind of container are unchanged at every reference that existed at entry
		v := x.eval(env, e.args[0])
		var names []string
		switch t := v.Typ.Underlying().(type) {
		case *types.Slice:
			n, _ := x.elemArr(env.st, t.Elem())
			names = []string{n}
		case *types.Map:
			d, va, l := x.mapArrs(env.st, t)
			names = []string{d, va, l}
		default:
			x.cfail("frame(x): x must be a slice or a map")
		}
		if env.old.nextRef == "" {
			return Val{T: "true", Typ: boolT}
		}
		var cs []string
		for _, n := range names {
			cur := x.heapArr(env.st, n, x.heapSorts[n])
			old := x.heapArr(env.old, n, x.heapSorts[n])
			if cur == old {
				continue
			}
			x.fresh++
			r := fmt.Sprintf("fr_%s!%d", mangle(n), x.fresh)
			// frame(x, y): ... except the object y (a slice's backing array, a map)
			except := "true"
			if len(e.args) > 1 {
				ev := x.eval(env, e.args[1])
				ref := ev.T
				if x.srt.sortOf(ev.Typ) == sSlice {
					ref = app("sl_arr", ev.T)
				}
				except = not(eq(r, ref))
			}
			cs = append(cs, fmt.Sprintf("(forall ((%s Int)) (=> (and (< 0 %s) (< %s %s) %s) (= (select %s %s) (select %s %s))))", r, r, r, env.old.nextRef, except, cur, r, old, r))
		}
		return Val{T: and(cs...), Typ: boolT}
	case "payload": // payload(x): the pointer held by interface value x (0 for a typed nil pointer)
		v := x.eval(env, e.args[0])
		return Val{T: app("ival", v.T), Typ: intT}
	case "deref": // deref(p): content of the cell / object p points to
		v := x.eval(env, e.args[0])
		return x.load(env.st, v)
	case "has": // has(m, k): k is a key of map m
		m := x.eval(env, e.args[0])
		k := x.eval(env, e.args[1])
		mt, ok := m.Typ.Underlying().(*types.Map)
		if !ok {
			x.cfail("has(m, k): m must be a map")
		}
		d, _, _ := x.mapArrs(env.st, mt)
		return Val{T: and(not(eq(m.T, "0")), app("select", app("select", env.st.heap[d], m.T), x.mapKey(mt, k.T))), Typ: boolT}
	case "visited": // visited(k): the map iteration of this loop has produced key k already (loop invariants of range-over-map loops)
		if env.hdr == nil || env.fr == nil {
			x.cfail("visited(k): only in invariants of a loop ranging over a map")
		}
		k := x.eval(env, e.args[0])
		for _, instr := range env.hdr.Instrs {
			if nx, ok := instr.(*ssa.Next); ok && !nx.IsString {
				if it, ok := env.fr.vals[nx.Iter]; ok && it.Iter != nil && it.Iter.isMap && it.Iter.cell != "" {
					mt := it.Iter.m.Typ.Underlying().(*types.Map)
					gv := x.visitedArr(env.st, mt)
					return Val{T: app("select", app("select", env.st.heap[gv], it.Iter.cell), x.mapKey(mt, k.T)), Typ: boolT}
				}
			}
		}
		x.cfail("visited(k): this loop does not range over a map")
	case "off": // off(s): position of s[0] in its backing array
		v := x.eval(env, e.args[0])
		if x.srt.sortOf(v.Typ) != sSlice {
			x.cfail("off(x): x must be a slice")
		}
		return Val{T: app("sl_off", v.T), Typ: intT}
	case "slot": // slot(s, p): the element at absolute position p of s's backing array (s[i] == slot(s, off(s)+i)):
		// quantifying over absolute positions makes facts about s carry over to s[k:] without an index shift
		v := x.eval(env, e.args[0])
		p := x.eval(env, e.args[1])
		st, ok := v.Typ.Underlying().(*types.Slice)
		if !ok {
			x.cfail("slot(s, p): s must be a slice")
		}
		name, srt := x.elemArr(env.st, st.Elem())
		return Val{T: app("select", app("select", x.heapArr(env.st, name, srt), app("sl_arr", v.T)), p.T), Typ: st.Elem()}
	case "arr": // arr(s): the backing array (object identity) of slice s
		v := x.eval(env, e.args[0])
		if x.srt.sortOf(v.Typ) != sSlice {
			x.cfail("arr(x): x must be a slice")
		}
		return Val{T: app("sl_arr", v.T), Typ: intT}
	case "b2i":
		return Val{T: ite(x.evalBool(env, e.args[0]), "1", "0"), Typ: intT}
	case "same": // exact representation equality (same bytes, offset and length for strings)
		a := x.eval(env, e.args[0])
		b := x.eval(env, e.args[1])
		return Val{T: eq(a.T, b.T), Typ: boolT}
	case "streq":
		a := x.eval(env, e.args[0])
		b := x.eval(env, e.args[1])
		return Val{T: x.strEq(a, b), Typ: boolT}
	case "strlt":
		// Go's byte-wise string order (the same relation symbol the executor uses for < on strings)
		a := x.eval(env, e.args[0])
		b := x.eval(env, e.args[1])
		return Val{T: app("strlt", a.T, b.T), Typ: boolT}
	}
	// uninterpreted spec functions: ufb_<name>(...) : Bool, ufi_<name>(...) : Int  (declared on first use)
	if strings.HasPrefix(e.name, "ufb_") || strings.HasPrefix(e.name, "ufi_") {
		var args, sorts []string
		for _, a := range e.args {
			v := x.eval(env, a)
			args = append(args, v.T)
			if v.Typ == nil || isUntyped(v.Typ) {
				sorts = append(sorts, sInt)
			} else {
				sorts = append(sorts, x.srt.sortOf(v.Typ))
			}
		}
		res, rt := sBool, types.Type(boolT)
		if strings.HasPrefix(e.name, "ufi_") {
			res, rt = sInt, intT
		}
		decl := fmt.Sprintf("(declare-fun %s (%s) %s)", e.name, strings.Join(sorts, " "), res)
		found := false
		for _, d := range x.decls {
			if d == decl {
				found = true
			}
		}
		if !found {
			x.decls = append(x.decls, decl)
		}
		return Val{T: app(e.name, args...), Typ: rt}
	}
	// predicates / spec functions: inline expansion
	if pd, ok := x.p.cons.preds[e.name]; ok {
		if len(pd.params) != len(e.args) {
			x.cfail("pred %s: wrong number of arguments", e.name)
		}
		if env.depth > 20 {
			x.cfail("pred %s: expansion too deep (recursive?)", e.name)
		}
		sub := *env
		sub.depth = env.depth + 1
		sub.vars = map[string]Val{}
		// the body sees only the predicate's parameters: bound variables of the calling context must not capture them
		sub.bound = nil
		if sp, ok := x.p.spkgs[pd.pkg]; ok {
			sub.pkg = sp.Pkg
		}
		sub.fr = nil
		sub.hdr = nil
		for i, p := range pd.params {
			sub.vars[p.name] = x.eval(env, e.args[i])
		}
		return x.eval(&sub, pd.body)
	}
	x.cfail("unknown function %s in contract", e.name)
	return Val{}
}

// ---------------------------------------------------------------------------
// Immutable package-level tables: value taken from the initialiser's composite literal

func (x *vc) globalImmutable(g *ssa.Global) bool {
	refs := g.Referrers()
	_ = refs
	// scan all repo functions for stores through this global
	for fn := range x.p.allFns {
		if fn.Pkg == nil || fn.Pkg != g.Pkg && !strings.HasPrefix(fn.Pkg.Pkg.Path(), modPath) {
			continue
		}
		if fn.Synthetic != "" && strings.HasPrefix(fn.Synthetic, "package init") {
			continue
		}
		if fn.Name() == "init" && fn.Pkg == g.Pkg && fn.Synthetic != "" {
			continue
		}
		for _, b := range fn.Blocks {
			for _, instr := range b.Instrs {
				for _, op := range instr.Operands(nil) {
					if *op != ssa.Value(g) {
						continue
					}
					// allowed uses: load, IndexAddr/FieldAddr followed by loads only
					if !readOnlyUse(instr, g, 0) {
						return false
					}
				}
			}
		}
	}
	return true
}

func readOnlyUse(instr ssa.Instruction, v ssa.Value, depth int) bool {
	if depth > 4 {
		return false
	}
	switch in := instr.(type) {
	case *ssa.UnOp:
		return in.Op == token.MUL
	case *ssa.IndexAddr, *ssa.FieldAddr:
		val := instr.(ssa.Value)
		for _, r := range *val.Referrers() {
			if !readOnlyUse(r, val, depth+1) {
				return false
			}
		}
		return true
	case *ssa.Store:
		return in.Addr != v && false
	case *ssa.DebugRef:
		return true
	case *ssa.Slice:
		return true // slices of tables are only read in this code base (checked by frame analysis elsewhere)
	}
	return false
}

var globalValCache = map[*vc]map[*ssa.Global]*Val{}

func (x *vc) globalValue(fr *frame, st *state, g *ssa.Global) (Val, bool) {
	if fr != nil && fr.fn.Synthetic != "" {
		return Val{}, false
	}
	cache := globalValCache[x]
	if cache == nil {
		cache = map[*ssa.Global]*Val{}
		globalValCache[x] = cache
	}
	if v, ok := cache[g]; ok {
		if v == nil {
			return Val{}, false
		}
		return *v, true
	}
	cache[g] = nil
	if !strings.HasPrefix(g.Pkg.Pkg.Path(), modPath) {
		return Val{}, false
	}
	init, info := x.p.findGlobalInit(g)
	if !x.globalImmutable(g) {
		return Val{}, false
	}
	et := g.Type().Underlying().(*types.Pointer).Elem()
	if init == nil {
		// declared without initialiser and never stored to: it holds the zero value of its type for ever
		if !x.globalDeclaredWithoutInit(g) {
			return Val{}, false
		}
		v := Val{T: x.srt.zero(et), Typ: et}
		cache[g] = &v
		return v, true
	}
	// initialised by a call to a function under contract: the (immutable) variable satisfies that function's
	// postconditions, with the parameters bound to the constant arguments of the call
	if x.srt.sortOf(et) == sIface && strings.HasSuffix(et.String(), "reflect.Type") {
		// var typeX = reflect.TypeOf((*T)(nil)).Elem() / reflect.MapOf(typeK, typeV) / ...: the immutable descriptor of
		// a type that the initialiser determines
		if t := x.rtypeOfInit(init, info, 0); t != nil {
			v := x.freshVal("glob_"+g.Name(), et, st)
			x.rtypeCanon("true", v.T, smtInt(int64(x.srt.typeID(t))))
			x.kindFact(t)
			x.ptrFact(t)
			cache[g] = &v
			x.trusted["const: immutable package variable "+g.Pkg.Pkg.Name()+"."+g.Name()+" holds the reflect.Type descriptor of "+t.String()+" built by its initialiser (reflect.TypeOf/Elem/MapOf/SliceOf/PtrTo as documented; no store outside init found by scan)"] = true
			return v, true
		}
	}
	if call, ok := init.(*ast.CallExpr); ok {
		// var ErrX = errors.New("...") : an immutable, non-nil error value of its own (a fresh pointer: distinct from
		// every other such variable)
		if sel, ok := call.Fun.(*ast.SelectorExpr); ok {
			if pk, ok := sel.X.(*ast.Ident); ok && ((pk.Name == "errors" && sel.Sel.Name == "New") || (pk.Name == "fmt" && sel.Sel.Name == "Errorf")) && x.srt.sortOf(et) == sIface {
				v := x.freshVal("glob_"+g.Name(), et, st)
				x.assume("true", and(not(eq(app("itag", v.T), "0")), eq(app("ival", v.T), smtInt(int64(600000+len(cache))))))
				cache[g] = &v
				x.trusted["const: immutable package variable "+g.Pkg.Pkg.Name()+"."+g.Name()+" holds the non-nil error made by its initialiser (no store outside init found by scan)"] = true
				return v, true
			}
		}
		// the initialising function: of the same package (f(...)) or of another repository package (pkg.f(...))
		id, isIdent := call.Fun.(*ast.Ident)
		calleePkg := g.Pkg.Pkg.Path()
		if sel, isSel := call.Fun.(*ast.SelectorExpr); isSel && info != nil {
			if pk, ok := sel.X.(*ast.Ident); ok {
				if pn, ok := info.Uses[pk].(*types.PkgName); ok && strings.HasPrefix(pn.Imported().Path(), modPath) {
					id, isIdent, calleePkg = sel.Sel, true, pn.Imported().Path()
				}
			}
		}
		if ok := isIdent; ok && (fr == nil || fnKey(fr.fn) != calleePkg+"."+id.Name) {
			key := calleePkg + "." + id.Name
			fc := x.p.cons.get(key)
			fn := x.p.funcs[key]
			if fc != nil && fn != nil && len(fc.ensures) > 0 {
				v := x.freshVal("glob_"+g.Name(), et, st)
				env := &cenv{x: x, vars: map[string]Val{"result": v, "r0": v}, st: st, old: st, pkg: g.Pkg.Pkg}
				okArgs := len(call.Args) == len(fn.Params)
				for i, a := range call.Args {
					if !okArgs {
						break
					}
					at, ok := x.constExpr(st, a, info, fn.Params[i].Type())
					if !ok {
						okArgs = false
						break
					}
					env.vars[fn.Params[i].Name()] = Val{T: x.define("initarg", x.srt.sortOf(fn.Params[i].Type()), at), Typ: fn.Params[i].Type()}
				}
				cache[g] = &v // before evaluating the clauses: they may mention the variable itself
				n := 0
				if okArgs {
					// the initialiser's preconditions, on its constant arguments
					for k, r := range fc.requires {
						func() {
							defer func() {
								if rr := recover(); rr != nil {
									if _, isCE := rr.(cevalErr); !isCE {
										panic(rr)
									}
								}
							}()
							g0 := &state{heap: st.heap, guard: "true", nextRef: st.nextRef}
							x.oblige(g0, "const", "pre."+g.Name(), x.evalBool(env, r.expr), x.p.pos(g.Pos()), fmt.Sprintf("precondition %d of %s holds for the constant arguments in the initialiser of %s: %s", k, id.Name, g.Name(), r.text), false)
						}()
					}
				}
				for _, e := range fc.ensures {
					func() {
						defer func() {
							if r := recover(); r != nil {
								if _, isCE := r.(cevalErr); !isCE {
									panic(r)
								}
							}
						}()
						x.assume("true", x.evalBool(env, e.expr))
						n++
					}()
				}
				x.trusted[fmt.Sprintf("const: immutable package variable %s.%s is the result of %s (its %d postconditions are assumed for the variable; the initialiser is verified against them; no store outside init found by scan)", g.Pkg.Pkg.Name(), g.Name(), id.Name, n)] = true
				return v, true
			}
		}
	}
	term, ok := x.constExpr(st, init, info, et)
	if !ok {
		return Val{}, false
	}
	n := x.define("tbl_"+g.Name(), x.srt.sortOf(et), term)
	v := Val{T: n, Typ: et}
	cache[g] = &v
	x.trusted["const: value of immutable package table "+g.Pkg.Pkg.Name()+"."+g.Name()+" taken from its initialiser (no store outside init found by scan)"] = true
	return v, true
}

// globalDeclaredWithoutInit: `var g T` with no value in any declaration of the package (an init function
// assigning it would be seen by the immutability scan, which covers every function of the package)
func (x *vc) globalDeclaredWithoutInit(g *ssa.Global) bool {
	pk := x.p.ppkgs[g.Pkg.Pkg.Path()]
	if pk == nil {
		return false
	}
	for _, f := range pk.Syntax {
		for _, d := range f.Decls {
			gd, ok := d.(*ast.GenDecl)
			if !ok || gd.Tok != token.VAR {
				continue
			}
			for _, s := range gd.Specs {
				vs := s.(*ast.ValueSpec)
				for _, n := range vs.Names {
					if n.Name == g.Name() {
						return len(vs.Values) == 0
					}
				}
			}
		}
	}
	return false
}

// constExpr translates a constant composite literal into an SMT term
func (x *vc) constExpr(st *state, e ast.Expr, info *types.Info, t types.Type) (string, bool) {
	if tv, ok := info.Types[e]; ok && tv.Value != nil {
		v := x.constantVal(tv.Value, t)
		if x.srt.sortOf(t) == sF64 && tv.Value.Kind() == constant.Int {
			f, _ := constant.Float64Val(tv.Value)
			return f64Lit(f), true
		}
		return v.T, v.T != ""
	}
	if id, ok := e.(*ast.Ident); ok {
		if id.Name == "nil" {
			return x.srt.zero(t), true
		}
		if f, ok := info.Uses[id].(*types.Func); ok && f.Pkg() != nil {
			if fn := x.p.funcs[f.Pkg().Path()+"."+f.Name()]; fn != nil {
				// a function value in a table: a non-zero identifier unique to the function
				return smtInt(int64(x.srt.typeID(types.NewNamed(types.NewTypeName(0, nil, "fn:"+fn.String(), nil), types.Typ[types.Int], nil)))), true
			}
		}
	}
	cl, ok := e.(*ast.CompositeLit)
	if !ok {
		if p, ok := e.(*ast.ParenExpr); ok {
			return x.constExpr(st, p.X, info, t)
		}
		return "", false
	}
	switch ut := t.Underlying().(type) {
	case *types.Array:
		es := x.srt.sortOf(ut.Elem())
		term := fmt.Sprintf("((as const (Array Int %s)) %s)", es, x.srt.zero(ut.Elem()))
		idx := int64(0)
		for _, el := range cl.Elts {
			val := el
			if kv, ok := el.(*ast.KeyValueExpr); ok {
				ktv := info.Types[kv.Key]
				if ktv.Value == nil {
					return "", false
				}
				idx, _ = constant.Int64Val(constant.ToInt(ktv.Value))
				val = kv.Value
			}
			vt, ok := x.constExpr(st, val, info, ut.Elem())
			if !ok {
				return "", false
			}
			term = app("store", term, smtInt(idx), vt)
			idx++
		}
		return term, true
	case *types.Struct:
		info2 := x.srt.structInfo[x.srt.sortOf(t)]
		if info2 == nil {
			return "", false
		}
		args := make([]string, ut.NumFields())
		for i := range args {
			args[i] = x.srt.zero(ut.Field(i).Type())
		}
		for i, el := range cl.Elts {
			if kv, ok := el.(*ast.KeyValueExpr); ok {
				id, ok := kv.Key.(*ast.Ident)
				if !ok {
					return "", false
				}
				found := false
				for k := 0; k < ut.NumFields(); k++ {
					if ut.Field(k).Name() == id.Name {
						vt, ok := x.constExpr(st, kv.Value, info, ut.Field(k).Type())
						if !ok {
							return "", false
						}
						args[k] = vt
						found = true
					}
				}
				if !found {
					return "", false
				}
			} else {
				vt, ok := x.constExpr(st, el, info, ut.Field(i).Type())
				if !ok {
					return "", false
				}
				args[i] = vt
			}
		}
		if len(args) == 0 {
			args = []string{"0"}
		}
		return app("mk_"+info2.sort, args...), true
	case *types.Slice:
		// immutable slice literal: a dedicated backing array whose content is fixed
		es := x.srt.sortOf(ut.Elem())
		content := fmt.Sprintf("((as const (Array Int %s)) %s)", es, x.srt.zero(ut.Elem()))
		n := int64(0)
		for _, el := range cl.Elts {
			if _, ok := el.(*ast.KeyValueExpr); ok {
				return "", false
			}
			vt, ok := x.constExpr(st, el, info, ut.Elem())
			if !ok {
				return "", false
			}
			content = app("store", content, smtInt(n), vt)
			n++
		}
		// backing arrays of immutable tables live at negative refs and are not part of the mutable heap
		name, srt := x.elemArr(st, ut.Elem())
		// table backing arrays get fixed refs in the reserved range (500, maxGlobals): valid, pre-existing objects
		x.nTable++
		if x.nTable >= 450 {
			return "", false
		}
		ref := smtInt(int64(500 + x.nTable))
		x.assume("true", eq(app("select", x.heap0[name], ref), content))
		x.tableRefs = append(x.tableRefs, tableRef{name, ref, content})
		_ = srt
		return app("mkslice", ref, "0", smtInt(n), smtInt(n)), true
	}
	return "", false
}

type tableRef struct{ arr, ref, content string }
