package main

import "go/types"

// reflect.Type descriptors are canonical: two Type values are == exactly when they describe the same type (package
// reflect documents Type values as comparable with ==). rtype_val(id) is the descriptor of the type with identifier id.

func (x *vc) needRType() {
	x.needDecl("(declare-fun rtype_id (Iface) Int)")
	x.needDecl("(declare-fun rtype_val (Int) Iface)")
	// rt_ptrto / rt_elem (identifier of *T from T and back) are declared in the reflect prelude
	// no quantified axiom is needed: every descriptor r met is asserted to be rtype_val(id) with rtype_id(r) = id, so equal
	// identifiers give equal descriptors and different identifiers different ones (congruence)
	x.trusted["reflect.Type values are canonical: == on descriptors is identity of the described types (documented)"] = true
}

// rtypeCanon: under guard, r is the (non-nil) descriptor of the type with identifier id
func (x *vc) rtypeCanon(guard, r, id string) {
	x.needRType()
	x.assume(guard, and(eq(r, app("rtype_val", id)), eq(app("rtype_id", r), id), not(eq(app("itag", r), "0")), not(eq(app("ival", r), "0"))))
}

// ptrFact: the identifier of *T is rt_ptrto of the identifier of T (used by reflect.Value.Addr and reflect.PtrTo)
func (x *vc) ptrFact(t types.Type) {
	if p, ok := t.Underlying().(*types.Pointer); ok {
		x.needRType()
		x.assume("true", and(eq(app("rt_ptrto", smtInt(int64(x.srt.typeID(p.Elem())))), smtInt(int64(x.srt.typeID(t)))),
			eq(app("rt_elem", smtInt(int64(x.srt.typeID(t)))), smtInt(int64(x.srt.typeID(p.Elem()))))))
		x.kindFact(p.Elem())
	}
}
