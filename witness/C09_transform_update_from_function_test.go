package jsonata

// Witness for the defect found by obligation (*transformationCallable).updateEntries:rv:MapKeys:0 (property C09): the
// update part of a transform is tested with jtypes.IsMap, which looks through interface wrappers, but its members
// are then listed with MapKeys on the value as evaluated. An update object that comes out of a function call
// ($merge, $sift, a lambda ...) is an interface-kinded reflect.Value, MapKeys panics on it and the panic escapes
// Eval. Repaired by the commit recorded in /verif/known_findings.jsonl (the update value is resolved first).

import (
	"encoding/json"
	"reflect"
	"testing"
)

func TestWitnessC09TransformUpdateFromFunction(t *testing.T) {
	for _, c := range []struct{ prog, want string }{
		{`$ ~> |x|$merge([{"k":1}])|`, `{"d":2,"x":{"a":1,"k":1}}`},
		{`$ ~> |x|$sift({"k":1,"j":2}, function($v){$v=1})|`, `{"d":2,"x":{"a":1,"k":1}}`},
		{`$ ~> |x|{"k":1}|`, `{"d":2,"x":{"a":1,"k":1}}`},
	} {
		func() {
			defer func() {
				if r := recover(); r != nil {
					t.Fatalf("WITNESS: %s panics: %v", c.prog, r)
				}
			}()
			var in, want interface{}
			json.Unmarshal([]byte(`{"x":{"a":1},"d":2}`), &in)
			json.Unmarshal([]byte(c.want), &want)
			v, err := MustCompile(c.prog).Eval(in)
			if err != nil || !reflect.DeepEqual(v, want) {
				t.Fatalf("%s = %v, %v; want %s", c.prog, v, err, c.want)
			}
		}()
	}
}
