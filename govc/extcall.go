package main

import (
	"fmt"

	"golang.org/x/tools/go/ssa"
)

// ---------------------------------------------------------------------------
// Calls to library functions in caller-side clauses: `atcall json.Unmarshal#0 requires callee_arg0 == data` and
// ret("json.Unmarshal#0", 1) work for external callees too. The callee is named <package name>.<function> (methods:
// <package name>.<Type>.<method>), its parameters arg0, arg1, ... (export data carries no parameter names).

func extName(fn *ssa.Function) string {
	s := shortFn(fn)
	if fn.Pkg != nil {
		return fn.Pkg.Pkg.Name() + "." + s
	}
	return s
}

func (x *vc) externalCallClauses(fr *frame, st *state, callee *ssa.Function, args []Val, pos string) {
	if !fr.top || x.topFC == nil || len(x.topFC.atcalls) == 0 {
		return
	}
	what := extName(callee)
	if x.extOrd == nil {
		x.extOrd = map[string]int{}
	}
	ord := x.extOrd[what]
	x.extOrd[what] = ord + 1
	for _, ac := range x.topFC.atcalls {
		if ac.callee != what || ac.ordinal != ord {
			continue
		}
		env := x.contractEnv(fr, st, nil)
		for i, a := range args {
			env.vars[fmt.Sprintf("callee_arg%d", i)] = a
		}
		detail := fmt.Sprintf("%s#%d", what, ord)
		if ac.cl.tag != "" {
			detail += "." + ac.cl.tag
		}
		x.oblige(st, "callarg", detail, x.evalBool(env, ac.cl.expr), pos, "argument clause for this library call: "+ac.cl.text, false)
		ac.seen = true
	}
}

func (x *vc) recordExternalResult(fr *frame, callee *ssa.Function, res Val, guard string) {
	if !fr.top {
		return
	}
	what := extName(callee)
	if x.callRes == nil {
		x.callRes = map[string]Val{}
		x.callResOrd = map[string]int{}
	}
	if x.callGuard == nil {
		x.callGuard = map[string]string{}
	}
	k := x.callResOrd[what]
	x.callResOrd[what] = k + 1
	key := fmt.Sprintf("%s#%d", what, k)
	x.callRes[key] = res
	x.callGuard[key] = guard
}
