package jsonata

// Witness for the defect found by obligation jlib.TypeOf:nil@invoke:0 (property C09): $type applied to an expression
// that has no value - $type($lookup({}, "a")) - reaches reflect.TypeOf(nil).String(): nil pointer dereference, and
// the panic escapes Eval. Repaired by the commit recorded in /verif/known_findings.jsonl ($type of nothing is nothing).

import (
	"testing"
)

func TestWitnessC09TypeOfNothing(t *testing.T) {
	for _, prog := range []string{`$type($lookup({}, "a"))`, `$type(nothing)`} {
		func() {
			defer func() {
				if r := recover(); r != nil {
					t.Fatalf("WITNESS: %s panics: %v", prog, r)
				}
			}()
			v, err := MustCompile(prog).Eval(nil)
			if err != ErrUndefined {
				t.Fatalf("%s = %v, %v; want no value", prog, v, err)
			}
		}()
	}
	v, err := MustCompile(`$type(null) & "/" & $type(1) & "/" & $type("a")`).Eval(nil)
	if err != nil || v != "null/number/string" {
		t.Fatalf("ordinary $type: %v %v", v, err)
	}
}
