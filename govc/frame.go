package main

import (
	"fmt"
	"go/token"
	"go/types"
	"sort"
	"strings"

	"golang.org/x/tools/go/ssa"
)

// ---------------------------------------------------------------------------
// Ownership / frame calculus (DESIGN §3.7): an interprocedural region analysis over
// the real SSA of every function reachable from the evaluation entry points.
//
// Every write-like instruction yields one obligation  owned(region(target)).
// Regions are sets of atoms: Shared (memory that exists when Eval is entered: AST,
// Expr, registries, baseEnv, package tables, the input document) and Param_i
// (whatever the i-th parameter refers to, resolved over all call sites). The empty
// set is "owned": allocated by this evaluation.

type region uint64

const rShared region = 1

// rGlobal: definitely derived from a package-level variable (used by the "no write to package-level state" mode)
const rGlobal region = 1 << 61

// rAbs: the atoms that are not relative to a function's parameters
const rAbs = rShared | rGlobal | rLocked

func rParam(i int) region {
	if i > 58 {
		return rShared
	}
	return region(1) << uint(i+1)
}

func (r region) String() string {
	if r == 0 {
		return "owned"
	}
	var parts []string
	if r&rShared != 0 {
		parts = append(parts, "shared")
	}
	if r&rLocked != 0 {
		parts = append(parts, "guarded-registry-map")
	}
	for i := 0; i <= 58; i++ {
		if r&rParam(i) != 0 {
			parts = append(parts, fmt.Sprintf("param%d", i))
		}
	}
	return strings.Join(parts, "|")
}

type absVal struct {
	ref  region // region of the memory the value refers to (pointee, backing array, map, interface payload)
	slot region // reflect.Value only: region of the addressable slot it denotes (container's backing store)
	tup  []absVal
	// interface values only: a tighter region for specific dynamic types (key: type string); a dynamic type that is
	// absent from the map has region ref. Lets "if c, ok := fn.(*T); ok { fn = copy }" be seen for what it is.
	typed map[string]region
}

func (a absVal) forType(t string) region {
	if r, ok := a.typed[t]; ok {
		return r
	}
	return a.ref
}

func (a absVal) join(b absVal) absVal {
	r := absVal{ref: a.ref | b.ref, slot: a.slot | b.slot}
	if len(a.typed) > 0 || len(b.typed) > 0 {
		for k := range a.typed {
			if v := a.forType(k) | b.forType(k); v != r.ref {
				if r.typed == nil {
					r.typed = map[string]region{}
				}
				r.typed[k] = v
			}
		}
		for k := range b.typed {
			if v := a.forType(k) | b.forType(k); v != r.ref {
				if r.typed == nil {
					r.typed = map[string]region{}
				}
				r.typed[k] = v
			}
		}
	}
	n := len(a.tup)
	if len(b.tup) > n {
		n = len(b.tup)
	}
	for i := 0; i < n; i++ {
		var x, y absVal
		if i < len(a.tup) {
			x = a.tup[i]
		}
		if i < len(b.tup) {
			y = b.tup[i]
		}
		r.tup = append(r.tup, x.join(y))
	}
	return r
}

func (a absVal) eq(b absVal) bool {
	if a.ref != b.ref || a.slot != b.slot || len(a.tup) != len(b.tup) || len(a.typed) != len(b.typed) {
		return false
	}
	for k, v := range a.typed {
		if w, ok := b.typed[k]; !ok || w != v {
			return false
		}
	}
	for i := range a.tup {
		if !a.tup[i].eq(b.tup[i]) {
			return false
		}
	}
	return true
}

type writeSite struct {
	fn        *ssa.Function
	instr     ssa.Instruction
	ord       int
	what      string
	reg       region // atoms of fn (Shared / own params)
	pos       string
	viaCallee string
	kind      string // "ref" or "slot"
}

type fsum struct {
	fn           *ssa.Function
	vals         map[ssa.Value]absVal
	cells        map[ssa.Value]absVal // content of containers allocated by this function (Alloc, MakeSlice, MakeMap), flow- and field-insensitive
	ret          []absVal
	writesRef    region // param atoms whose referent is written (transitively)
	writesSlot   region
	sites        []*writeSite
	qualBad      []*writeSite // stores of non-owned values into fields declared owned
	unknownCalls []string
	escSites     []*writeSite // stores that make a reference-like value reachable from the heap (tracked for the lock-guarded registry)
	escapes      region       // parameter atoms whose referent may be stored into the heap
	paramIn      []absVal     // join of actual arguments over all call sites (caller atoms resolved to taint below)
}

type frameAnalysis struct {
	p              *program
	sums           map[*ssa.Function]*fsum
	order          []*ssa.Function
	roots          []*ssa.Function
	ownedFields    map[string]bool // "pkg.Type.field"
	sharedFields   map[string]bool
	ownedTypes     map[string]bool // evaluation-only pointer types, e.g. "*jsonata.sequence"
	changed        bool
	impls          map[string][]*ssa.Function // interface method name -> implementations in the repo
	fnParamTargets map[*ssa.Parameter]map[*ssa.Function]bool
	taintRef       map[*ssa.Function]region // params (atoms) that may be bound to shared memory in some call chain from a root
	taintSlot      map[*ssa.Function]region
	notes          []string
	closureParent  map[*ssa.Function]*ssa.Function
	rootSet        map[*ssa.Function]bool
	addrTakenCache []*ssa.Function
	freshResult    map[string]bool
	zeroGlobals    map[*ssa.Global]bool
	dynTypesCache  []types.Type
	bad            region // rShared: ownership mode (default); rGlobal: "no write to package-level state" mode
}

func typeKey(t types.Type) string {
	return types.TypeString(t, func(p *types.Package) string { return p.Name() })
}

func fieldKey(structT types.Type, i int) string {
	if p, ok := structT.Underlying().(*types.Pointer); ok {
		structT = p.Elem()
	}
	st := structT.Underlying().(*types.Struct)
	return typeKey(structT) + "." + st.Field(i).Name()
}

func refLike(t types.Type) bool {
	if isReflectValue(t) {
		return true
	}
	switch u := t.Underlying().(type) {
	case *types.Pointer, *types.Slice, *types.Map, *types.Interface, *types.Signature, *types.Chan:
		return true
	case *types.Struct:
		for i := 0; i < u.NumFields(); i++ {
			if refLike(u.Field(i).Type()) {
				return true
			}
		}
	case *types.Array:
		return refLike(u.Elem())
	case *types.Tuple:
		return true
	}
	return false
}

func newFrameAnalysis(p *program) *frameAnalysis {
	fa := &frameAnalysis{p: p, sums: map[*ssa.Function]*fsum{}, ownedFields: map[string]bool{}, sharedFields: map[string]bool{}, ownedTypes: map[string]bool{},
		impls: map[string][]*ssa.Function{}, fnParamTargets: map[*ssa.Parameter]map[*ssa.Function]bool{}, taintRef: map[*ssa.Function]region{}, taintSlot: map[*ssa.Function]region{},
		closureParent: map[*ssa.Function]*ssa.Function{}}
	return fa
}

// rootsAndReach determines the analysed function set: everything reachable (CHA) from the roots.
func (fa *frameAnalysis) reach(roots []*ssa.Function) {
	fa.roots = roots
	fa.rootSet = map[*ssa.Function]bool{}
	for _, r := range roots {
		fa.rootSet[r] = true
	}
	// method implementations by name (CHA restricted to repo types)
	for fn := range fa.p.allFns {
		if !isRepoFn(fn) || fn.Signature.Recv() == nil {
			continue
		}
		fa.impls[fn.Name()] = append(fa.impls[fn.Name()], fn)
	}
	for k := range fa.impls {
		sort.Slice(fa.impls[k], func(i, j int) bool { return fnKey(fa.impls[k][i]) < fnKey(fa.impls[k][j]) })
	}
	seen := map[*ssa.Function]bool{}
	var visit func(fn *ssa.Function)
	visit = func(fn *ssa.Function) {
		if fn == nil || seen[fn] || !isRepoFn(fn) {
			return
		}
		seen[fn] = true
		fa.order = append(fa.order, fn)
		for _, b := range fn.Blocks {
			for _, instr := range b.Instrs {
				switch in := instr.(type) {
				case ssa.CallInstruction:
					cc := in.Common()
					if cc.IsInvoke() {
						for _, m := range fa.invokeTargets(cc) {
							visit(m)
						}
					} else if callee := cc.StaticCallee(); callee != nil {
						visit(callee)
					}
					for _, a := range cc.Args {
						if f, ok := a.(*ssa.Function); ok {
							visit(f)
						}
					}
				case *ssa.MakeClosure:
					f := in.Fn.(*ssa.Function)
					fa.closureParent[f] = fn
					visit(f)
				}
				for _, op := range instr.Operands(nil) {
					if f, ok := (*op).(*ssa.Function); ok {
						visit(f)
					}
				}
			}
		}
	}
	for _, r := range roots {
		visit(r)
	}
	// dynamic calls through function values: every address-taken repo function of the same signature is a possible target
	for again := true; again; {
		again = false
		for _, fn := range append([]*ssa.Function{}, fa.order...) {
			for _, b := range fn.Blocks {
				for _, instr := range b.Instrs {
					ci, ok := instr.(ssa.CallInstruction)
					if !ok {
						continue
					}
					cc := ci.Common()
					if cc.IsInvoke() || cc.StaticCallee() != nil {
						continue
					}
					if _, isB := cc.Value.(*ssa.Builtin); isB {
						continue
					}
					sig, ok := cc.Value.Type().Underlying().(*types.Signature)
					if !ok {
						continue
					}
					for _, cand := range fa.addrTaken() {
						if !seen[cand] && cand.Signature.Recv() == nil && types.Identical(types.NewSignatureType(nil, nil, nil, cand.Signature.Params(), cand.Signature.Results(), cand.Signature.Variadic()), sig) {
							visit(cand)
							again = true
						}
					}
				}
			}
		}
	}
	sort.Slice(fa.order, func(i, j int) bool { return fnKey(fa.order[i]) < fnKey(fa.order[j]) })
	for _, fn := range fa.order {
		fa.sums[fn] = &fsum{fn: fn, vals: map[ssa.Value]absVal{}, cells: map[ssa.Value]absVal{}, paramIn: make([]absVal, len(fn.Params))}
	}
}

func (fa *frameAnalysis) invokeTargets(cc *ssa.CallCommon) []*ssa.Function {
	var out []*ssa.Function
	iface, ok := cc.Value.Type().Underlying().(*types.Interface)
	if !ok {
		return nil
	}
	// one target per dynamic type of the repository that implements the interface: the method value of that type
	// (for promoted methods this is the synthetic wrapper, whose receiver is the dynamic type)
	seen := map[*ssa.Function]bool{}
	// the value may have been obtained by asserting another interface value: its dynamic type implements both
	var also []*types.Interface
	for v, depth := cc.Value, 0; depth < 6; depth++ {
		if ex, ok := v.(*ssa.Extract); ok {
			v = ex.Tuple
		}
		switch x := v.(type) {
		case *ssa.TypeAssert:
			if it, ok := x.X.Type().Underlying().(*types.Interface); ok {
				also = append(also, it)
			}
			v = x.X
			continue
		case *ssa.ChangeInterface:
			if it, ok := x.X.Type().Underlying().(*types.Interface); ok {
				also = append(also, it)
			}
			v = x.X
			continue
		}
		break
	}
	for _, d := range fa.dynTypes() {
		if !types.Implements(d, iface) {
			continue
		}
		okAll := true
		for _, it := range also {
			if !types.Implements(d, it) {
				okAll = false
			}
		}
		if !okAll {
			continue
		}
		sel := fa.p.prog.MethodSets.MethodSet(d).Lookup(cc.Method.Pkg(), cc.Method.Name())
		if sel == nil {
			continue
		}
		fn := fa.p.prog.MethodValue(sel)
		if fn == nil || fn.Blocks == nil || seen[fn] {
			continue
		}
		seen[fn] = true
		out = append(out, fn)
	}
	sort.Slice(out, func(i, j int) bool { return out[i].String() < out[j].String() })
	return out
}

// dynTypes: every concrete named type declared in the repo packages, and its pointer type
func (fa *frameAnalysis) dynTypes() []types.Type {
	if fa.dynTypesCache != nil {
		return fa.dynTypesCache
	}
	var paths []string
	for path := range fa.p.spkgs {
		paths = append(paths, path)
	}
	sort.Strings(paths)
	out := []types.Type{}
	for _, path := range paths {
		sc := fa.p.spkgs[path].Pkg.Scope()
		for _, name := range sc.Names() {
			tn, ok := sc.Lookup(name).(*types.TypeName)
			if !ok || types.IsInterface(tn.Type()) {
				continue
			}
			out = append(out, tn.Type(), types.NewPointer(tn.Type()))
		}
	}
	fa.dynTypesCache = out
	return out
}

func (fa *frameAnalysis) isOwnedType(t types.Type) bool {
	return fa.ownedTypes[typeKey(t)]
}

// ---------------------------------------------------------------------------
// Intraprocedural transfer

func (fa *frameAnalysis) val(s *fsum, v ssa.Value) absVal {
	switch c := v.(type) {
	case *ssa.Const, *ssa.Function, *ssa.Builtin:
		return absVal{}
	case *ssa.Global:
		return absVal{ref: rShared | rGlobal, slot: rShared | rGlobal}
	case *ssa.Parameter:
		for i, p := range s.fn.Params {
			if p == c {
				if fa.closureParent[s.fn] != nil {
					// parameters of closures: bound by whoever calls the closure; conservatively shared
					// unless the parameter has an evaluation-only type
					if fa.isOwnedType(c.Type()) {
						return absVal{}
					}
					return absVal{ref: rShared, slot: rShared}
				}
				if fa.rootSet[s.fn] && s.fn.Signature.Variadic() && i == len(s.fn.Params)-1 {
					// entry points are only invoked through reflect.Value.Call, which builds the variadic slice itself
					// (documented); the slice is fresh, its elements are not
					return absVal{}
				}
				return absVal{ref: rParam(i), slot: rParam(i)}
			}
		}
	case *ssa.FreeVar:
		// free variables carry the abstract value of their binding in the enclosing function
		if parent := fa.closureParent[s.fn]; parent != nil {
			ps := fa.sums[parent]
			for _, b := range parent.Blocks {
				for _, instr := range b.Instrs {
					if mc, ok := instr.(*ssa.MakeClosure); ok && mc.Fn == ssa.Value(s.fn) {
						for k, fv := range s.fn.FreeVars {
							if fv == c && k < len(mc.Bindings) {
								return fa.val(ps, mc.Bindings[k])
							}
						}
					}
				}
			}
		}
		return absVal{ref: rShared, slot: rShared}
	}
	return s.vals[v]
}

func (fa *frameAnalysis) set(s *fsum, v ssa.Value, a absVal) {
	if !refLike(v.Type()) {
		return
	}
	if fa.isOwnedType(v.Type()) {
		// evaluation-only object types are owned wherever they come from (rely/guarantee argument, DESIGN §3.7)
		if _, isParam := v.(*ssa.Parameter); !isParam {
			a.ref = 0
		}
	}
	old, ok := s.vals[v]
	n := old.join(a)
	if !ok || !n.eq(old) {
		s.vals[v] = n
		fa.changed = true
	}
}

// zeroGlobal: the package-level variable has no initialiser and is never stored to or address-taken anywhere in the repo
func (fa *frameAnalysis) zeroGlobal(g *ssa.Global) bool {
	if v, ok := fa.zeroGlobals[g]; ok {
		return v
	}
	if fa.zeroGlobals == nil {
		fa.zeroGlobals = map[*ssa.Global]bool{}
	}
	zero := g.Pkg != nil && strings.HasPrefix(g.Pkg.Pkg.Path(), modPath)
	if zero {
		for fn := range fa.p.allFns {
			if fn.Pkg != g.Pkg {
				continue
			}
			for _, b := range fn.Blocks {
				for _, instr := range b.Instrs {
					for _, op := range instr.Operands(nil) {
						if *op != ssa.Value(g) {
							continue
						}
						switch in := instr.(type) {
						case *ssa.UnOp:
							if in.Op != token.MUL {
								zero = false
							}
						case *ssa.DebugRef:
						default:
							zero = false // stored to, or its address escapes
						}
					}
				}
			}
		}
	}
	fa.zeroGlobals[g] = zero
	return zero
}

// containerOf resolves an address or container value to the allocation (Alloc, MakeSlice, MakeMap) it denotes, when
// that allocation happens in this function or, for captured variables, in the enclosing function.
func (fa *frameAnalysis) containerOf(s *fsum, v ssa.Value, depth int) (*fsum, ssa.Value) {
	if depth > 8 {
		return nil, nil
	}
	switch x := v.(type) {
	case *ssa.Alloc, *ssa.MakeSlice, *ssa.MakeMap:
		return s, v
	case *ssa.FieldAddr:
		return fa.containerOf(s, x.X, depth+1)
	case *ssa.IndexAddr:
		return fa.containerOf(s, x.X, depth+1)
	case *ssa.Slice:
		return fa.containerOf(s, x.X, depth+1)
	case *ssa.FreeVar:
		parent := fa.closureParent[s.fn]
		if parent == nil {
			return nil, nil
		}
		ps := fa.sums[parent]
		for _, b := range parent.Blocks {
			for _, instr := range b.Instrs {
				if mc, ok := instr.(*ssa.MakeClosure); ok && mc.Fn == ssa.Value(s.fn) {
					for k, fv := range s.fn.FreeVars {
						if fv == x && k < len(mc.Bindings) {
							return fa.containerOf(ps, mc.Bindings[k], depth+1)
						}
					}
				}
			}
		}
	}
	return nil, nil
}

func (fa *frameAnalysis) addContent(cs *fsum, c ssa.Value, v absVal) {
	old := cs.cells[c]
	n := old.join(v)
	if !n.eq(old) {
		cs.cells[c] = n
		fa.changed = true
	}
}

// setRaw records a value without the evaluation-only-type rule (loads of package-level variables and of
// fields declared shared keep their shared region whatever their type)
func (fa *frameAnalysis) setRaw(s *fsum, v ssa.Value, a absVal) {
	old, ok := s.vals[v]
	n := old.join(a)
	if !ok || !n.eq(old) {
		s.vals[v] = n
		fa.changed = true
	}
}

// derive: region of something loaded out of a container living in region r
func derive(r region, ownedQual bool) region {
	r &^= rLocked // the lock protects the container object itself, not what its elements refer to
	if ownedQual {
		return r
	}
	return r | rShared
}

// rLocked marks the map object held in the lock-guarded package-level registry: it may be read while the lock is
// held but must never be stored anywhere (it would be accessed later without the lock)
const rLocked region = 1 << 62

func (fa *frameAnalysis) loadQual(addr ssa.Value) (owned bool, shared bool) {
	switch a := addr.(type) {
	case *ssa.FieldAddr:
		k := fieldKey(a.X.Type(), a.Field)
		return fa.ownedFields[k], fa.sharedFields[k]
	}
	return false, false
}

func (fa *frameAnalysis) write(s *fsum, instr ssa.Instruction, r region, kind, what string) {
	if r&rLocked != 0 {
		// writes to the lock-guarded registry map are governed by the lock-set obligations, not by ownership
		r &^= rAbs
		if r == 0 {
			return
		}
	}
	ord := 0
	for _, w := range s.sites {
		if w.instr == instr && w.what == what {
			if w.reg|r != w.reg {
				w.reg |= r
				fa.changed = true
			}
			return
		}
		ord++
	}
	s.sites = append(s.sites, &writeSite{fn: s.fn, instr: instr, what: what, reg: r, pos: fa.p.pos(instr.Pos()), kind: kind})
	fa.changed = true
}

func (fa *frameAnalysis) analyseFunc(s *fsum) {
	fn := s.fn
	for _, b := range fn.Blocks {
		for _, instr := range b.Instrs {
			fa.transfer(s, instr)
		}
	}
	// summary: written param atoms (through own sites)
	var wr, ws region
	for _, w := range s.sites {
		if w.kind == "slot" {
			ws |= w.reg &^ rAbs
		} else {
			wr |= w.reg &^ rAbs
		}
	}
	if wr != s.writesRef || ws != s.writesSlot {
		s.writesRef, s.writesSlot = wr, ws
		fa.changed = true
	}
	var esc region
	for _, w := range s.escSites {
		esc |= w.reg &^ rAbs
	}
	if esc != s.escapes {
		s.escapes = esc
		fa.changed = true
	}
}

func (fa *frameAnalysis) transfer(s *fsum, instr ssa.Instruction) {
	switch in := instr.(type) {
	case *ssa.Alloc, *ssa.MakeSlice, *ssa.MakeMap, *ssa.MakeChan:
		fa.set(s, in.(ssa.Value), absVal{})
	case *ssa.MakeClosure:
		fa.set(s, in, absVal{})
		// creating a closure is treated as if its writes happened here (it runs during or after this activation)
		cf := in.Fn.(*ssa.Function)
		if cs := fa.sums[cf]; cs != nil {
			for _, w := range cs.sites {
				if w.reg != 0 {
					fa.write(s, in, w.reg&^rAbs, w.kind, "closure "+cf.Name()+": "+w.what)
				}
			}
		}
	case *ssa.Phi:
		var a absVal
		first := true
		for k, e := range in.Edges {
			v := fa.val(s, e)
			// edge refinement: along the false branch of `x, ok := e.(T)` the value does not have dynamic type T
			if k < len(in.Block().Preds) {
				p := in.Block().Preds[k]
				if len(p.Instrs) > 0 {
					if iff, ok := p.Instrs[len(p.Instrs)-1].(*ssa.If); ok && len(p.Succs) == 2 && p.Succs[1] == in.Block() && p.Succs[0] != in.Block() {
						if ex, ok := iff.Cond.(*ssa.Extract); ok && ex.Index == 1 {
							if ta, ok := ex.Tuple.(*ssa.TypeAssert); ok && ta.CommaOk && ta.X == e && !types.IsInterface(ta.AssertedType) {
								nv := absVal{ref: v.ref, slot: v.slot, tup: v.tup, typed: map[string]region{}}
								for kk, vv := range v.typed {
									nv.typed[kk] = vv
								}
								nv.typed[typeKey(ta.AssertedType)] = 0
								v = nv
							}
						}
					}
				}
			}
			if first {
				a = v
				first = false
			} else {
				a = a.join(v)
			}
		}
		fa.set(s, in, a)
	case *ssa.UnOp:
		if in.Op != token.MUL {
			return
		}
		addr := fa.val(s, in.X)
		if g, ok := in.X.(*ssa.Global); ok {
			if fa.zeroGlobal(g) {
				// a package-level variable that is never assigned holds the zero value: it refers to nothing
				fa.setRaw(s, in, absVal{})
				return
			}
			r := rShared | rGlobal
			if g.Name() == "globalRegistry" {
				r |= rLocked
			}
			fa.setRaw(s, in, absVal{ref: r, slot: rShared})
			return
		}
		owned, shared := fa.loadQual(in.X)
		r := derive(addr.ref, owned)
		if shared {
			fa.setRaw(s, in, absVal{ref: rShared, slot: rShared})
			return
		}
		// loads from a container allocated by this function (or, for captured variables, by the enclosing one)
		if cs, c := fa.containerOf(s, in.X, 0); c != nil {
			cv := cs.cells[c]
			if owned {
				cv.ref &^= rShared
			}
			fa.set(s, in, absVal{ref: cv.ref, slot: cv.slot})
			return
		}
		fa.set(s, in, absVal{ref: r, slot: r})
	case *ssa.FieldAddr:
		fa.set(s, in, fa.val(s, in.X))
	case *ssa.IndexAddr:
		fa.set(s, in, fa.val(s, in.X))
	case *ssa.Field:
		fa.set(s, in, fa.val(s, in.X))
	case *ssa.Index:
		x := fa.val(s, in.X)
		fa.set(s, in, absVal{ref: derive(x.ref, false), slot: derive(x.ref, false)})
	case *ssa.Lookup:
		x := fa.val(s, in.X)
		e := absVal{ref: derive(x.ref, false), slot: derive(x.ref, false)}
		if cs, c := fa.containerOf(s, in.X, 0); c != nil {
			e = cs.cells[c]
			e.tup = nil
		}
		if in.CommaOk {
			fa.set(s, in, absVal{tup: []absVal{e, {}}})
		} else {
			fa.set(s, in, e)
		}
	case *ssa.Slice:
		fa.set(s, in, fa.val(s, in.X))
	case *ssa.MakeInterface:
		x := fa.val(s, in.X)
		fa.set(s, in, absVal{ref: x.ref, slot: x.slot, typed: map[string]region{typeKey(in.X.Type()): x.ref}})
	case *ssa.ChangeInterface:
		fa.set(s, in, fa.val(s, in.X))
	case *ssa.ChangeType:
		fa.set(s, in, fa.val(s, in.X))
	case *ssa.Convert:
		if refLike(in.Type()) && refLike(in.X.Type()) {
			if _, isStr := in.X.Type().Underlying().(*types.Basic); !isStr {
				fa.set(s, in, fa.val(s, in.X))
				return
			}
		}
		fa.set(s, in, absVal{})
	case *ssa.TypeAssert:
		x := fa.val(s, in.X)
		res := absVal{ref: x.ref, slot: x.slot, typed: x.typed}
		if !types.IsInterface(in.AssertedType) {
			res = absVal{ref: x.forType(typeKey(in.AssertedType)), slot: x.slot}
		}
		if in.CommaOk {
			fa.set(s, in, absVal{tup: []absVal{res, {}}})
			if fa.isOwnedType(in.AssertedType) {
				s.vals[in] = absVal{tup: []absVal{{ref: 0, slot: x.slot}, {}}}
			}
		} else {
			fa.set(s, in, res)
		}
	case *ssa.Extract:
		t := fa.val(s, in.Tuple)
		if in.Index < len(t.tup) {
			fa.set(s, in, t.tup[in.Index])
		} else {
			fa.set(s, in, absVal{ref: t.ref, slot: t.slot})
		}
	case *ssa.Range:
		fa.set(s, in, fa.val(s, in.X))
	case *ssa.Next:
		x := fa.val(s, in.Iter)
		e := absVal{ref: derive(x.ref, false), slot: derive(x.ref, false)}
		if rng, ok := in.Iter.(*ssa.Range); ok {
			if cs, c := fa.containerOf(s, rng.X, 0); c != nil {
				e = cs.cells[c]
				e.tup = nil
			}
		}
		fa.set(s, in, absVal{tup: []absVal{{}, e, e}})
	case *ssa.Store:
		v := fa.val(s, in.Val)
		if _, toGlobal := in.Addr.(*ssa.Global); !toGlobal && refLike(in.Val.Type()) {
			if _, local := in.Addr.(*ssa.Alloc); !local {
				// escape of the lock-guarded registry map (directly, or of a parameter that a caller binds to it)
				if esc := v.ref &^ (rShared | rGlobal); esc != 0 {
					fa.escape(s, in, esc)
				}
			}
		}
		if cs, c := fa.containerOf(s, in.Addr, 0); c != nil {
			// store into a container allocated by this function: remember content (flow- and field-insensitive)
			fa.addContent(cs, c, absVal{ref: v.ref, slot: v.slot})
			// qualifier check below still applies
		}
		addr := fa.val(s, in.Addr)
		if fa2, ok := in.Addr.(*ssa.FieldAddr); ok && refLike(in.Val.Type()) {
			if fa.ownedFields[fieldKey(fa2.X.Type(), fa2.Field)] && v.ref != 0 {
				fa.qualCheck(s, in, v.ref, fieldKey(fa2.X.Type(), fa2.Field))
			}
		}
		if g, ok := in.Addr.(*ssa.Global); ok {
			if g.Name() != "globalRegistry" { // guarded by its mutex: lock-set obligations
				fa.write(s, in, rShared|rGlobal, "ref", "store to package-level variable "+in.Addr.Name())
			}
			return
		}
		fa.write(s, in, addr.ref, "ref", "store through "+describeAddr(in.Addr))
	case *ssa.MapUpdate:
		m := fa.val(s, in.Map)
		if cs, c := fa.containerOf(s, in.Map, 0); c != nil {
			v := fa.val(s, in.Value)
			fa.addContent(cs, c, absVal{ref: v.ref, slot: v.slot})
		}
		fa.write(s, in, m.ref, "ref", "map update "+in.Map.Name())
	case ssa.CallInstruction:
		fa.call(s, in)
	}
}

func (fa *frameAnalysis) escape(s *fsum, instr ssa.Instruction, r region) {
	for _, w := range s.escSites {
		if w.instr == instr {
			if w.reg|r != w.reg {
				w.reg |= r
				fa.changed = true
			}
			return
		}
	}
	s.escSites = append(s.escSites, &writeSite{fn: s.fn, instr: instr, reg: r, what: "reference stored into the heap", pos: fa.p.pos(instr.Pos())})
	fa.changed = true
}

func (fa *frameAnalysis) qualCheck(s *fsum, instr ssa.Instruction, r region, field string) {
	for _, w := range s.qualBad {
		if w.instr == instr {
			if w.reg|r != w.reg {
				w.reg |= r
				fa.changed = true
			}
			return
		}
	}
	s.qualBad = append(s.qualBad, &writeSite{fn: s.fn, instr: instr, reg: r, what: "store of a possibly non-owned value into owned field " + field, pos: fa.p.pos(instr.Pos())})
	fa.changed = true
}

func describeAddr(v ssa.Value) string {
	switch a := v.(type) {
	case *ssa.FieldAddr:
		pt := a.X.Type().Underlying().(*types.Pointer).Elem()
		return "field " + fieldKey(pt, a.Field)
	case *ssa.IndexAddr:
		return "element of " + a.X.Name() + " (" + typeKey(a.X.Type()) + ")"
	}
	return "pointer " + v.Name() + " (" + typeKey(v.Type()) + ")"
}

// instantiate a callee-relative region with the actual arguments
func instantiate(r region, args []absVal, slot bool) region {
	out := r & rAbs
	for i, a := range args {
		if r&rParam(i) != 0 {
			if slot {
				out |= a.slot
			} else {
				out |= a.ref
			}
		}
	}
	return out
}

func instAbs(a absVal, args []absVal) absVal {
	r := absVal{ref: instantiate(a.ref, args, false), slot: instantiate(a.slot, args, true)}
	for _, t := range a.tup {
		r.tup = append(r.tup, instAbs(t, args))
	}
	return r
}

func (fa *frameAnalysis) applySummary(s *fsum, in ssa.CallInstruction, callee *ssa.Function, args []absVal) absVal {
	cs := fa.sums[callee]
	if cs == nil {
		return absVal{ref: rShared, slot: rShared}
	}
	// record actuals for the top-down taint pass
	for i := range cs.paramIn {
		if i < len(args) {
			n := cs.paramIn[i].join(absVal{ref: args[i].ref, slot: args[i].slot})
			if !n.eq(cs.paramIn[i]) {
				cs.paramIn[i] = n
				fa.changed = true
			}
		}
	}
	if cs.escapes != 0 {
		if r := instantiate(cs.escapes, args, false) &^ (rShared | rGlobal); r != 0 {
			fa.escape(s, in, r)
		}
	}
	if r := instantiate(cs.writesRef, args, false); cs.writesRef != 0 {
		fa.write(s, in, r, "ref", "call "+shortFn(callee)+" (writes through its parameters)")
	}
	if r := instantiate(cs.writesSlot, args, true); cs.writesSlot != 0 {
		fa.write(s, in, r, "slot", "call "+shortFn(callee)+" (sets reflect slots of its parameters)")
	}
	var ret absVal
	if len(cs.ret) == 1 {
		ret = instAbs(cs.ret[0], args)
	} else if len(cs.ret) > 1 {
		for _, r := range cs.ret {
			ret.tup = append(ret.tup, instAbs(r, args))
		}
	}
	return ret
}

func (fa *frameAnalysis) call(s *fsum, in ssa.CallInstruction) {
	cc := in.Common()
	var args []absVal
	var res ssa.Value
	if v, ok := in.(ssa.Value); ok {
		res = v
	}
	setRes := func(a absVal) {
		if res != nil {
			if tup, ok := res.Type().(*types.Tuple); ok {
				if tup.Len() == 0 {
					return
				}
				if len(a.tup) == 0 {
					var t []absVal
					for i := 0; i < tup.Len(); i++ {
						t = append(t, absVal{ref: a.ref, slot: a.slot})
					}
					a = absVal{tup: t}
				}
				old, ok := s.vals[res]
				n := old.join(a)
				// evaluation-only types inside tuples
				for i := 0; i < tup.Len() && i < len(n.tup); i++ {
					if fa.isOwnedType(tup.At(i).Type()) {
						n.tup[i].ref = 0
					}
				}
				if !ok || !n.eq(old) {
					s.vals[res] = n
					fa.changed = true
				}
				return
			}
			fa.set(s, res, a)
		}
	}
	if cc.IsInvoke() {
		recv := fa.val(s, cc.Value)
		args = append(args, recv)
		for _, a := range cc.Args {
			args = append(args, fa.val(s, a))
		}
		targets := fa.invokeTargets(cc)
		if len(targets) == 0 {
			// interface implemented outside the repo (error, fmt.Stringer, json.Marshaler ...): read-only by assumption
			setRes(absVal{ref: recv.ref, slot: recv.ref})
			return
		}
		var ret absVal
		for _, t := range targets {
			// the receiver seen by this implementation is the part of the value that has its dynamic type
			targs := append([]absVal{}, args...)
			rt := t.Signature.Recv().Type()
			targs[0] = absVal{ref: recv.forType(typeKey(rt)), slot: recv.slot}
			ret = ret.join(fa.applySummary(s, in, t, targs))
		}
		setRes(ret)
		return
	}
	for _, a := range cc.Args {
		args = append(args, fa.val(s, a))
	}
	if b, ok := cc.Value.(*ssa.Builtin); ok {
		switch b.Name() {
		case "append":
			if _, isNil := cc.Args[0].(*ssa.Const); !isNil {
				fa.write(s, in, args[0].ref, "ref", "append may write into the backing array of "+cc.Args[0].Name())
			}
			setRes(absVal{ref: args[0].ref})
		case "copy":
			fa.write(s, in, args[0].ref, "ref", "copy into "+cc.Args[0].Name())
		case "delete":
			fa.write(s, in, args[0].ref, "ref", "delete from map "+cc.Args[0].Name())
		}
		return
	}
	callee := cc.StaticCallee()
	if callee == nil {
		// function value: closure known in this function, or parameter resolved over call sites
		if mc, ok := cc.Value.(*ssa.MakeClosure); ok {
			callee = mc.Fn.(*ssa.Function)
		}
	}
	if callee == nil {
		targets := fa.funcValueTargets(s, cc.Value)
		if len(targets) == 0 {
			fa.unknownCall(s, in, "call through function value "+cc.Value.Name()+" ("+typeKey(cc.Value.Type())+")")
			setRes(absVal{ref: rShared, slot: rShared})
			return
		}
		var ret absVal
		for _, t := range targets {
			ret = ret.join(fa.applySummary(s, in, t, args))
		}
		setRes(ret)
		return
	}
	if isRepoFn(callee) {
		if fa.closureParent[callee] != nil {
			// closure called directly: its parameters were analysed as shared; result as computed
			cs := fa.sums[callee]
			var ret absVal
			if cs != nil {
				if len(cs.ret) == 1 {
					ret = cs.ret[0]
				} else {
					ret.tup = cs.ret
				}
			}
			setRes(ret)
			return
		}
		setRes(fa.applySummary(s, in, callee, args))
		return
	}
	setRes(fa.external(s, in, callee, args))
}

func (fa *frameAnalysis) unknownCall(s *fsum, in ssa.CallInstruction, what string) {
	msg := what + " at " + fa.p.pos(in.Pos())
	for _, u := range s.unknownCalls {
		if u == msg {
			return
		}
	}
	s.unknownCalls = append(s.unknownCalls, msg)
}

// funcValueTargets resolves a function-typed value to the set of functions it may denote
func (fa *frameAnalysis) funcValueTargets(s *fsum, v ssa.Value) []*ssa.Function {
	seen := map[ssa.Value]bool{}
	out := map[*ssa.Function]bool{}
	var walk func(fn *ssa.Function, v ssa.Value, depth int)
	walk = func(fn *ssa.Function, v ssa.Value, depth int) {
		if seen[v] || depth > 6 {
			return
		}
		seen[v] = true
		switch x := v.(type) {
		case *ssa.Function:
			out[x] = true
		case *ssa.MakeClosure:
			out[x.Fn.(*ssa.Function)] = true
		case *ssa.Phi:
			for _, e := range x.Edges {
				walk(fn, e, depth+1)
			}
		case *ssa.ChangeType:
			walk(fn, x.X, depth+1)
		case *ssa.Parameter:
			// all call sites of fn
			idx := -1
			for i, p := range fn.Params {
				if p == x {
					idx = i
				}
			}
			if idx < 0 {
				return
			}
			for _, caller := range fa.order {
				for _, b := range caller.Blocks {
					for _, instr := range b.Instrs {
						ci, ok := instr.(ssa.CallInstruction)
						if !ok {
							continue
						}
						c := ci.Common()
						if c.StaticCallee() == fn && idx < len(c.Args) {
							walk(caller, c.Args[idx], depth+1)
						}
					}
				}
			}
		}
	}
	walk(s.fn, v, 0)
	if len(out) == 0 {
		// fall back to every address-taken repo function with an identical signature (CHA for function values)
		if sig, ok := v.Type().Underlying().(*types.Signature); ok {
			for _, cand := range fa.addrTaken() {
				if types.Identical(cand.Signature, sig) || (cand.Signature.Recv() == nil && types.Identical(types.NewSignatureType(nil, nil, nil, cand.Signature.Params(), cand.Signature.Results(), cand.Signature.Variadic()), sig)) {
					out[cand] = true
				}
			}
		}
	}
	var fns []*ssa.Function
	for f := range out {
		fns = append(fns, f)
	}
	sort.Slice(fns, func(i, j int) bool { return fnKey(fns[i]) < fnKey(fns[j]) })
	return fns
}

// addrTaken lists repo functions used as values (stored, passed, returned) anywhere in the repo packages
func (fa *frameAnalysis) addrTaken() []*ssa.Function {
	if fa.addrTakenCache != nil {
		return fa.addrTakenCache
	}
	set := map[*ssa.Function]bool{}
	for fn := range fa.p.allFns {
		if !isRepoFn(fn) {
			continue
		}
		for _, b := range fn.Blocks {
			for _, instr := range b.Instrs {
				for i, op := range instr.Operands(nil) {
					f, ok := (*op).(*ssa.Function)
					if !ok || !isRepoFn(f) {
						continue
					}
					if ci, isCall := instr.(ssa.CallInstruction); isCall && i == 0 && ci.Common().Value == *op {
						continue // direct call
					}
					set[f] = true
				}
			}
		}
	}
	var out []*ssa.Function
	for f := range set {
		out = append(out, f)
	}
	sort.Slice(out, func(i, j int) bool { return fnKey(out[i]) < fnKey(out[j]) })
	if out == nil {
		out = []*ssa.Function{}
	}
	fa.addrTakenCache = out
	return out
}

// external: effect table for functions outside the repository (trusted)
func (fa *frameAnalysis) external(s *fsum, in ssa.CallInstruction, callee *ssa.Function, args []absVal) absVal {
	name := callee.String()
	arg := func(i int) absVal {
		if i < len(args) {
			return args[i]
		}
		return absVal{}
	}
	cc := in.Common()
	callFuncArg := func(i int) {
		if i < len(cc.Args) {
			for _, t := range fa.funcValueTargets(s, cc.Args[i]) {
				cs := fa.sums[t]
				if cs == nil {
					continue
				}
				for _, w := range cs.sites {
					if w.reg != 0 && fa.closureParent[t] == nil {
						fa.write(s, in, rShared, w.kind, "callback "+t.Name()+": "+w.what)
					}
				}
			}
		}
	}
	switch {
	case name == "reflect.ValueOf":
		return absVal{ref: arg(0).ref, slot: 0}
	case name == "reflect.MakeSlice", name == "reflect.MakeMap", name == "reflect.MakeMapWithSize", name == "reflect.New", name == "reflect.Zero", name == "reflect.Indirect":
		if name == "reflect.Indirect" {
			return arg(0)
		}
		return absVal{}
	case name == "reflect.Append", name == "reflect.AppendSlice":
		fa.write(s, in, arg(0).ref, "ref", name+" may write into the backing array of its first argument")
		return absVal{ref: arg(0).ref}
	case name == "reflect.Copy":
		fa.write(s, in, arg(0).ref, "ref", "reflect.Copy into its first argument")
		return absVal{}
	case strings.HasPrefix(name, "(reflect.Value).Set") && name != "(reflect.Value).SetMapIndex":
		fa.write(s, in, arg(0).slot, "slot", name+" writes the slot denoted by its receiver")
		return absVal{}
	case name == "(reflect.Value).SetMapIndex":
		fa.write(s, in, arg(0).ref, "ref", "SetMapIndex writes the map denoted by its receiver")
		return absVal{}
	case name == "(reflect.Value).Index", name == "(reflect.Value).MapIndex", name == "(reflect.Value).Field", name == "(reflect.Value).FieldByName", name == "(reflect.Value).FieldByIndex":
		return absVal{slot: arg(0).ref, ref: derive(arg(0).ref, false)}
	case name == "(reflect.Value).Elem":
		return absVal{slot: arg(0).ref, ref: derive(arg(0).ref, false)}
	case name == "(reflect.Value).Interface", name == "(reflect.Value).Slice", name == "(reflect.Value).Slice3", name == "(reflect.Value).Convert", name == "(reflect.Value).MapRange":
		return absVal{ref: arg(0).ref}
	case name == "(reflect.Value).Addr":
		return absVal{ref: arg(0).slot}
	case name == "(reflect.Value).MapKeys":
		return absVal{ref: 0}
	case name == "(reflect.Value).Call", name == "(reflect.Value).CallSlice":
		// extension functions: the built-in ones (package jlib) are analysed as roots with shared parameters;
		// user-supplied ones are outside the statement
		return absVal{ref: rShared, slot: rShared}
	case strings.HasPrefix(name, "(reflect.Value)."), strings.HasPrefix(name, "reflect."), strings.HasPrefix(name, "(*reflect.rtype)"):
		return absVal{ref: arg(0).ref}
	case name == "sort.SliceStable", name == "sort.Slice":
		fa.write(s, in, arg(0).ref, "ref", name+" reorders its argument in place")
		callFuncArg(1)
		return absVal{}
	case name == "sort.Sort", name == "sort.Stable", name == "sort.Strings", name == "sort.Float64s", name == "sort.Ints":
		fa.write(s, in, arg(0).ref, "ref", name+" reorders its argument in place")
		return absVal{}
	case name == "math/rand.Shuffle":
		callFuncArg(1)
		return absVal{}
	case name == "encoding/json.Unmarshal":
		fa.write(s, in, arg(1).ref, "ref", "json.Unmarshal writes through its second argument")
		return absVal{}
	case name == "(*encoding/json.Decoder).Decode":
		fa.write(s, in, arg(1).ref, "ref", "Decoder.Decode writes through its argument")
		return absVal{}
	case strings.HasPrefix(name, "(*strings.Builder)."), strings.HasPrefix(name, "(*bytes.Buffer)."):
		fa.write(s, in, arg(0).ref, "ref", name+" writes its receiver")
		return absVal{}
	case strings.HasPrefix(name, "(*sync.RWMutex)."), strings.HasPrefix(name, "(*sync.Mutex)."), strings.HasPrefix(name, "(*sync.Once)."):
		return absVal{} // synchronisation primitives: exempt, checked by the lock-set obligations
	case name == "strings.Split", name == "strings.SplitN", name == "strings.Fields", name == "strings.Repeat", strings.HasPrefix(name, "strconv."), strings.HasPrefix(name, "fmt."), strings.HasPrefix(name, "errors."),
		strings.HasPrefix(name, "math."), strings.HasPrefix(name, "unicode"), strings.HasPrefix(name, "strings."), strings.HasPrefix(name, "encoding/base64"), strings.HasPrefix(name, "net/url"),
		strings.HasPrefix(name, "time."), strings.HasPrefix(name, "(time."), strings.HasPrefix(name, "(*time."), strings.HasPrefix(name, "encoding/json.Marshal"), strings.HasPrefix(name, "bytes."),
		strings.HasPrefix(name, "regexp."), strings.HasPrefix(name, "(*regexp.Regexp)."), strings.HasPrefix(name, "math/rand."), strings.HasPrefix(name, "(*math/rand."), strings.HasPrefix(name, "encoding/json.NewDecoder"),
		strings.HasPrefix(name, "(*encoding/json.Decoder)."), strings.HasPrefix(name, "(encoding/json."), strings.HasPrefix(name, "encoding/json.NewEncoder"), strings.HasPrefix(name, "(*encoding/json.Encoder)."),
		strings.HasPrefix(name, "(*net/url."), strings.HasPrefix(name, "(net/url."), strings.HasPrefix(name, "unicode/utf8."), strings.HasPrefix(name, "unicode/utf16."), strings.HasPrefix(name, "(*encoding/base64"), strings.HasPrefix(name, "math/big"), strings.HasPrefix(name, "(*math/big"):
		return absVal{} // fresh results, no writes to caller-visible memory (trusted table)
	}
	fa.unknownCall(s, in, "external function "+name+" not in the effect table (assumed read-only, fresh result)")
	return absVal{}
}

// ---------------------------------------------------------------------------
// Fixpoint, taint, obligations

func (fa *frameAnalysis) run() {
	for iter := 0; iter < 200; iter++ {
		fa.changed = false
		for _, fn := range fa.order {
			s := fa.sums[fn]
			// intraprocedural fixpoint
			for k := 0; k < 50; k++ {
				before := fa.changed
				fa.changed = false
				fa.analyseFunc(s)
				// returns
				var rets []absVal
				for _, b := range fn.Blocks {
					if len(b.Instrs) == 0 {
						continue
					}
					if r, ok := b.Instrs[len(b.Instrs)-1].(*ssa.Return); ok {
						for i, v := range r.Results {
							a := fa.val(s, v)
							if !refLike(v.Type()) {
								a = absVal{}
							}
							if i >= len(rets) {
								rets = append(rets, a)
							} else {
								rets[i] = rets[i].join(a)
							}
						}
					}
				}
				same := len(rets) == len(s.ret)
				if same {
					for i := range rets {
						if !rets[i].eq(s.ret[i]) {
							same = false
						}
					}
				}
				if !same {
					for i := range rets {
						if i < len(s.ret) {
							rets[i] = rets[i].join(s.ret[i])
						}
						if fa.isOwnedType(fn.Signature.Results().At(i).Type()) {
							rets[i].ref = 0
						}
					}
					same2 := len(rets) == len(s.ret)
					if same2 {
						for i := range rets {
							if !rets[i].eq(s.ret[i]) {
								same2 = false
							}
						}
					}
					if !same2 {
						s.ret = rets
						fa.changed = true
					}
				}
				if !fa.changed {
					fa.changed = before
					break
				}
				fa.changed = true
			}
		}
		if !fa.changed {
			break
		}
	}
	// top-down taint: which parameters may be bound to shared memory
	isRoot := map[*ssa.Function]bool{}
	for _, r := range fa.roots {
		isRoot[r] = true
	}
	if fa.bad == 0 {
		fa.bad = rShared
	}
	for _, fn := range fa.order {
		if isRoot[fn] && fa.bad == rShared {
			var all region
			for i, p := range fn.Params {
				if !fa.isOwnedType(p.Type()) {
					all |= rParam(i)
				}
			}
			fa.taintRef[fn], fa.taintSlot[fn] = all, all
		}
	}
	for changed := true; changed; {
		changed = false
		for _, caller := range fa.order {
			cs := fa.sums[caller]
			resolve := func(r region, slot bool) bool { // does r (caller atoms) contain shared memory?
				if r&fa.bad != 0 {
					return true
				}
				t := fa.taintRef[caller]
				if slot {
					t = fa.taintSlot[caller] | fa.taintRef[caller]
				}
				return r&t != 0
			}
			for _, b := range caller.Blocks {
				for _, instr := range b.Instrs {
					ci, ok := instr.(ssa.CallInstruction)
					if !ok {
						continue
					}
					cc := ci.Common()
					var targets []*ssa.Function
					var args []absVal
					if cc.IsInvoke() {
						targets = fa.invokeTargets(cc)
						args = append(args, fa.val(cs, cc.Value))
					} else if c := cc.StaticCallee(); c != nil && isRepoFn(c) {
						targets = []*ssa.Function{c}
					} else if _, isB := cc.Value.(*ssa.Builtin); !isB && cc.StaticCallee() == nil {
						targets = fa.funcValueTargets(cs, cc.Value)
					}
					for _, a := range cc.Args {
						args = append(args, fa.val(cs, a))
					}
					for _, t := range targets {
						if fa.sums[t] == nil || fa.closureParent[t] != nil {
							continue
						}
						for i := range t.Params {
							if i >= len(args) || fa.isOwnedType(t.Params[i].Type()) {
								continue
							}
							aref := args[i].ref
							if i == 0 && cc.IsInvoke() {
								aref = args[0].forType(typeKey(t.Signature.Recv().Type()))
							}
							if resolve(aref, false) && fa.taintRef[t]&rParam(i) == 0 {
								fa.taintRef[t] |= rParam(i)
								changed = true
							}
							if resolve(args[i].slot, true) && fa.taintSlot[t]&rParam(i) == 0 {
								fa.taintSlot[t] |= rParam(i)
								changed = true
							}
						}
					}
				}
			}
		}
	}
}

type frameObligation struct {
	name   string
	fn     string
	pos    string
	what   string
	region string
	ok     bool
	why    string
	class  string
}

func (fa *frameAnalysis) obligations() []frameObligation {
	var out []frameObligation
	for _, fn := range fa.order {
		s := fa.sums[fn]
		// stable order of sites: by position in the function body
		idx := map[ssa.Instruction]int{}
		n := 0
		for _, b := range fn.Blocks {
			for _, instr := range b.Instrs {
				idx[instr] = n
				n++
			}
		}
		sites := append([]*writeSite{}, s.sites...)
		sort.SliceStable(sites, func(i, j int) bool { return idx[sites[i].instr] < idx[sites[j].instr] })
		outer := fn
		for fa.closureParent[outer] != nil {
			outer = fa.closureParent[outer]
		}
		k := -1
		for _, w := range sites {
			if strings.HasPrefix(w.what, "call ") || strings.HasPrefix(w.what, "closure ") {
				continue // propagation records; the leaf write site carries the obligation
			}
			k++
			cls := "owned"
			if fa.bad == rGlobal {
				cls = "nopkgwrite"
			}
			ob := frameObligation{name: fmt.Sprintf("%s:%s:%d", fnKey(fn), cls, k), fn: fnKey(fn), pos: w.pos, what: w.what, region: w.reg.String(), class: cls}
			taint := fa.taintRef[outer]
			if w.kind == "slot" {
				taint |= fa.taintSlot[outer]
			}
			switch {
			case w.reg == 0:
				ob.ok = true
				ob.why = "target allocated by this evaluation"
			case w.reg&fa.bad != 0 && fa.bad == rGlobal:
				ob.why = "target is package-level state or reachable from it (" + w.reg.String() + ")"
			case w.reg&fa.bad != 0:
				ob.why = "target may be memory that existed before the evaluation (" + w.reg.String() + ")"
			case w.reg&taint != 0:
				ob.why = "target is reached through parameter(s) " + (w.reg & taint).String() + " which some call chain from an entry point binds to shared memory"
			default:
				ob.ok = true
				ob.why = "target reached only through parameters that every call chain binds to memory allocated by the evaluation (" + w.reg.String() + ")"
			}
			out = append(out, ob)
		}
		for k, w := range s.qualBad {
			out = append(out, frameObligation{name: fmt.Sprintf("%s:ownedfield:%d", fnKey(fn), k), fn: fnKey(fn), pos: w.pos, what: w.what, region: w.reg.String(), class: "ownedfield",
				ok: w.reg&(fa.bad|fa.taintRef[fn]) == 0, why: "value stored into a field declared owned must itself be owned"})
		}
		for k, w := range s.escSites {
			if w.reg&rLocked == 0 {
				continue
			}
			out = append(out, frameObligation{name: fmt.Sprintf("%s:lockset-escape:%d", fnKey(fn), k), fn: fnKey(fn), pos: w.pos, what: "the lock-guarded registry map is stored into the heap and can later be accessed without the lock", region: w.reg.String(), class: "lockset-escape",
				ok: false, why: "an alias of globalRegistry escapes the critical section"})
		}
		if fa.freshResult[fnKey(fn)] {
			okFresh := len(s.ret) > 0 && s.ret[0].ref == 0 && s.ret[0].slot == 0
			reg := "no result"
			if len(s.ret) > 0 {
				reg = (s.ret[0].ref | s.ret[0].slot).String()
			}
			out = append(out, frameObligation{name: fmt.Sprintf("%s:fresh-result:0", fnKey(fn)), fn: fnKey(fn), pos: fa.p.pos(fn.Pos()), what: "the result refers only to memory allocated by the call", region: reg, class: "fresh-result",
				ok: okFresh, why: "declared freshresult: callers rely on being free to modify the result"})
		}
		for k, u := range s.unknownCalls {
			out = append(out, frameObligation{name: fmt.Sprintf("%s:effects:%d", fnKey(fn), k), fn: fnKey(fn), what: u, class: "effects", ok: false, why: "callee effects unknown"})
		}
	}
	return out
}
