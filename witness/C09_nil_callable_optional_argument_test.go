package jsonata

// Witness for the defect found by obligation jtypes.(*OptionalCallable).Set:assert-type:0 (property C09): an optional
// function parameter (the comparator of $sort) is filled with v.Interface().(Callable), unchecked. A nil
// interface-kinded Value of static type Callable is accepted by the argument conversion (its type *is* the parameter's
// type), its Interface() is the nil interface and the assertion panics: $sort([2,1], $) on such an input Value.
// Repaired by the commit recorded in /verif/known_findings.jsonl (a nil function is an absent argument).

import (
	"reflect"
	"testing"

	"github.com/blues/jsonata-go/jtypes"
)

func TestWitnessC09NilCallableOptionalArgument(t *testing.T) {
	defer func() {
		if r := recover(); r != nil {
			t.Fatalf("WITNESS: panic: %v", r)
		}
	}()
	m := map[string]jtypes.Callable{"c": nil}
	v := reflect.ValueOf(m).MapIndex(reflect.ValueOf("c"))
	out, err := MustCompile(`$sort([2,1], $)`).Eval(v)
	if err != nil || !reflect.DeepEqual(out, []interface{}{float64(1), float64(2)}) {
		t.Fatalf("$sort with a nil comparator = %v, %v; want the default order", out, err)
	}
	opt := jtypes.OptionalCallable{}
	opt.Set(v)
	if opt.IsSet() || opt.Callable != nil {
		t.Fatalf("a nil function counts as set")
	}
	// a real comparator still works
	out, err = MustCompile(`$sort([1,2], function($a,$b){$a<$b})`).Eval(nil)
	if err != nil || !reflect.DeepEqual(out, []interface{}{float64(2), float64(1)}) {
		t.Fatalf("ordinary comparator: %v %v", out, err)
	}
}
