package jsonata

// Witness for the defect found by obligation jtypes.AsCallable:assert-type:0 (property C09): AsCallable tests
// v.Type().Implements(TypeCallable) and then asserts v.Interface().(Callable) without the comma-ok form. For a nil
// interface-kinded Value whose static type is Callable (the element of a map[string]jtypes.Callable, a struct field
// of that type) Type() is the interface type itself, Implements is true, Interface() is the nil interface and the
// assertion panics ("interface conversion: interface is nil, not jtypes.Callable"). Eval accepts a reflect.Value as
// its input, so `$(1)` on such a Value panics instead of reporting "cannot call non-function". Repaired by the commit
// recorded in /verif/known_findings.jsonl.

import (
	"reflect"
	"testing"

	"github.com/blues/jsonata-go/jtypes"
)

func TestWitnessC09NilCallableInterfaceValue(t *testing.T) {
	defer func() {
		if r := recover(); r != nil {
			t.Fatalf("WITNESS: panic: %v", r)
		}
	}()
	m := map[string]jtypes.Callable{"f": nil}
	v := reflect.ValueOf(m).MapIndex(reflect.ValueOf("f"))
	if c, ok := jtypes.AsCallable(v); ok || c != nil {
		t.Fatalf("AsCallable of a nil Callable = %v, %v; want nil, false", c, ok)
	}
	if _, err := MustCompile(`$(1)`).Eval(v); err == nil {
		t.Fatalf("calling a nil function value did not report an error")
	}
	// ordinary callables are unaffected
	out, err := MustCompile(`$uppercase("a")`).Eval(nil)
	if err != nil || out != "A" {
		t.Fatalf("ordinary call: %v %v", out, err)
	}
}
