package main

import (
	"flag"
	"fmt"
	"os"
	"path/filepath"
	"sort"
	"strings"
	"time"
)

func usage() {
	fmt.Fprintln(os.Stderr, `usage:
  govc vc     [--repo DIR] [--func KEY]... [--timeout S] [--dump DIR]   generate and discharge VCs for functions under contract
  govc check  <property-id> [--tier quick|thorough] [--repo DIR]        the registered per-property check
  govc frame  [--repo DIR]                                               ownership / frame analysis (C05-C07)`)
	os.Exit(2)
}

type multiFlag []string

func (m *multiFlag) String() string     { return strings.Join(*m, ",") }
func (m *multiFlag) Set(s string) error { *m = append(*m, s); return nil }

func verifDir() string {
	if d := os.Getenv("VERIF_DIR"); d != "" {
		return d
	}
	exe, err := os.Executable()
	if err == nil {
		d := filepath.Dir(filepath.Dir(exe))
		if _, err := os.Stat(filepath.Join(d, "properties.jsonl")); err == nil {
			return d
		}
	}
	return "/verif"
}

func main() {
	if len(os.Args) < 2 {
		usage()
	}
	switch os.Args[1] {
	case "vc":
		cmdVC(os.Args[2:])
	case "check":
		cmdCheck(os.Args[2:])
	case "frame":
		cmdFrame(os.Args[2:])
	case "sweep": // zero-annotation safety sweep: govc sweep <pkgpath-substring> [timeout]
		cmdSweep(os.Args[2:])
	case "ssa": // debugging aid: print the SSA form of a function as the generator sees it
		p, err := loadProgram("/repo", verifDir())
		if err != nil {
			fmt.Fprintln(os.Stderr, err)
			os.Exit(2)
		}
		for k, fn := range p.funcs {
			if len(os.Args) > 2 && strings.Contains(k, os.Args[2]) {
				fn.WriteTo(os.Stdout)
			}
		}
	case "locals": // write <verif>/locals_baseline.json (declared variables per function under contract, see alias.go)
		cmdLocals(os.Args[2:])
	case "selftest":
		cmdSelftest(os.Args[2:])
	default:
		usage()
	}
}

func cmdVC(args []string) {
	fs := flag.NewFlagSet("vc", flag.ExitOnError)
	repo := fs.String("repo", "/repo", "repository root")
	timeout := fs.Int("timeout", 10, "per-obligation solver timeout (s)")
	dump := fs.String("dump", "", "keep SMT files in this directory")
	jobs := fs.Int("jobs", 8, "parallel obligations")
	verbose := fs.Bool("v", false, "verbose")
	safety := fs.Bool("safety", false, "safety obligations only")
	var funcs multiFlag
	fs.Var(&funcs, "func", "function key (substring match); repeatable")
	fs.Parse(args)
	t0 := time.Now()
	p, err := loadProgram(*repo, verifDir())
	if err != nil {
		fmt.Fprintln(os.Stderr, "load:", err)
		os.Exit(2)
	}
	fmt.Printf("loaded in %.1fs; %d contracts\n", time.Since(t0).Seconds(), len(p.cons.funcs))
	var keys []string
	for k, fc := range p.cons.funcs {
		if fc.trusted || fc.inline || strings.Contains(k, ".iface:") || strings.Contains(k, ".functype:") {
			continue
		}
		if len(funcs) > 0 {
			m := false
			for _, f := range funcs {
				if strings.Contains(k, f) {
					m = true
				}
			}
			if !m {
				continue
			}
		}
		keys = append(keys, k)
	}
	// functions without contract named explicitly: safety-only
	for _, f := range funcs {
		if fn, ok := p.funcs[f]; ok && p.cons.funcs[f] == nil {
			_ = fn
			keys = append(keys, f)
		}
	}
	sort.Strings(keys)
	var results []*funcResult
	for _, k := range keys {
		t1 := time.Now()
		var r *funcResult
		if strings.Contains(k, ".lemma:") {
			r = verifyLemma(p, k, p.cons.funcs[k])
		} else {
			r = verifyFunction(p, p.funcs[k], p.cons.funcs[k], *safety)
		}
		r.genS = time.Since(t1).Seconds()
		results = append(results, r)
	}
	work := *dump
	if work == "" {
		work, _ = os.MkdirTemp("", "govc")
		defer os.RemoveAll(work)
	} else {
		os.MkdirAll(work, 0o755)
	}
	stats := dischargeAll(results, work, *timeout, *jobs, false)
	nOK, nFail := 0, 0
	for _, r := range results {
		if r.err != "" {
			fmt.Printf("%-60s GENERATOR ERROR: %s\n", r.key, r.err)
			nFail++
			continue
		}
		ok, bad := 0, 0
		for _, o := range r.obls {
			if o.status == "discharged" {
				ok++
			} else {
				bad++
			}
		}
		fmt.Printf("%-60s %3d obligations, %3d discharged, %d not  (gen %.2fs)\n", r.key, len(r.obls), ok, bad, r.genS)
		nOK += ok
		nFail += bad
		for _, o := range r.obls {
			if o.status != "discharged" || *verbose {
				fmt.Printf("    %-10s %-70s %s %.2fs  %s\n        %s\n", o.status, o.name, o.solver, o.secs, o.pos, o.desc)
				if o.status != "discharged" && *verbose {
					fmt.Printf("        %s\n", strings.ReplaceAll(o.output, "\n", "\n        "))
				}
			}
		}
		for _, o := range r.reach {
			if o.status == "unreachable" && !strings.HasPrefix(o.desc, "panic-block") {
				fmt.Printf("    dead block under contract: %s at %s\n", o.name, o.pos)
			}
		}
		if *verbose {
			for _, n := range r.notes {
				fmt.Printf("    note: %s\n", n)
			}
		}
	}
	fmt.Printf("total: %d discharged, %d not; solver time %.1fs; by solver %v; wall %.1fs\n", nOK, nFail, stats.secs, stats.bySolver, time.Since(t0).Seconds())
}

func cmdSelftest(args []string) { fmt.Println("not implemented yet"); os.Exit(2) }
