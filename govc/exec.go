package main

import (
	"fmt"
	"go/constant"
	"go/token"
	"go/types"
	"sort"
	"strings"
	"time"

	"golang.org/x/tools/go/ssa"
)

// genBudget is raised when generating the obligations of one function takes too long or grows too large
type genBudget struct{ msg string }

// ---------------------------------------------------------------------------
// Symbolic values

type Val struct {
	T     string     // SMT term
	Typ   types.Type // Go type (may be nil for spec-only values)
	Fn    *ssa.Function
	Bind  []Val
	Tuple []Val
	LV    *lvalue // non-nil: this value is an address computed by FieldAddr/IndexAddr (not a first-class ref)
	Nil   bool    // the untyped nil of the contract language
	Lit   *string // string literal content when known
	Iter  *iterInfo
}

type iterInfo struct {
	str   *Val
	cell  string // ref of the position cell
	isMap bool
	m     *Val
	dom0  string // map iteration: the key set of the map when the iteration started
}

type pathElem struct {
	field int
	sinfo *structInfo
	index string // array index term when sinfo == nil
	asort string // array sort
	esort string
}

type lvalue struct {
	arr   string // heap array name
	ref   string // key (object ref, or backing-array ref)
	idx   string // for elem roots: index
	rsort string // sort stored at the root location
	rtyp  types.Type
	path  []pathElem
	typ   types.Type // type of the addressed location
}

type state struct {
	heap    map[string]string
	guard   string
	nextRef string
}

func (s *state) clone() *state {
	h := make(map[string]string, len(s.heap))
	for k, v := range s.heap {
		h[k] = v
	}
	return &state{heap: h, guard: s.guard, nextRef: s.nextRef}
}

type obligation struct {
	name    string
	class   string
	fn      string
	goal    string
	guard   string
	nDecl   int
	nAssert int
	pos     string
	desc    string
	auto    bool // generated (safety) rather than from a contract clause
	// results
	status   string // discharged | failed | unknown
	solver   string
	secs     float64
	model    string
	output   string
	canary   bool   // must be refuted (vacuity check)
	onlyProp string // set when the generating clause is labelled with a property id: counted for that property only
	soft     bool   // reachability probe: an unsat answer is recorded (dead block under the contract) but is not a failure
	inputs   []inputVar
}

type firstIterPref struct {
	term  string
	nDecl int
}

type inputVar struct {
	name string // Go-level name (parameter path)
	term string
	sort string
	typ  types.Type
}

// vc is the verification-condition generator state for one function under contract
type vc struct {
	p                 *program
	srt               *sorter
	decls             []string
	asserts           []string
	obls              []*obligation
	fresh             int
	heapSorts         map[string]string
	heap0             map[string]string
	top               *ssa.Function
	topFC             *funcContract
	notes             []string // abstraction notes: havocs, unsupported constructs
	trusted           map[string]bool
	atifCount         map[string]int    // how many branches with a given condition text were generated so far
	extOrd            map[string]int    // ordinals of calls to library functions (for atcall clauses on them)
	callGuard         map[string]string // path condition under which the k-th call to a callee under contract was made
	curCall           ssa.CallInstruction // the call instruction being modelled (stdlib models that need operand types)
	pendingBinds      []Val               // captured variables of the closure whose contract is being applied
	counted           map[string]bool     // call sites with a ghost counter (calls("callee#k") in the contract)
	rtypeAxiom        bool                // the canonicity axiom of reflect.Type descriptors has been emitted
	implPreds         []implPred          // "implements interface I" predicates over type tags (facts stated lazily)
	curTail           bool                // the call being executed is in tail position (`return f(args)`) in the top frame
	tailInline        bool                // executing the body of an inlined tail call
	escInfo           *escInfo            // non-escaping allocation sites of the function under verification (localobj.go)
	hasLocal          bool
	counters          map[string]int
	stack             []*ssa.Function
	globals           map[*ssa.Global]string
	strlits           map[string]string
	inputs            []inputVar
	maxInline         int
	safetyOnly        bool
	entry             *state
	calleesByContract map[string]bool
	inlined           map[string]bool
	tableRefs         []tableRef
	tablesDone        map[*ssa.Global]bool
	nonNil            map[string]bool
	nTable            int
	entryMeasure      []string // function-level termination measure evaluated at entry
	pendingSelf       *Val
	firstIter         []firstIterPref
	topFrame          *frame
	callOrd           map[string]int
	nameOverride      string
	nInlined          int
	callRes           map[string]Val
	callResOrd        map[string]int
	t0                time.Time
	reach             []*obligation // soft reachability canaries (one per block of the top-level function)
}

func newVC(p *program, fn *ssa.Function, fc *funcContract) *vc {
	x := &vc{p: p, srt: newSorter(), heapSorts: map[string]string{}, heap0: map[string]string{}, top: fn, topFC: fc,
		trusted: map[string]bool{}, counters: map[string]int{}, globals: map[*ssa.Global]string{}, strlits: map[string]string{},
		maxInline: 6, calleesByContract: map[string]bool{}, inlined: map[string]bool{}}
	return x
}

func (x *vc) note(format string, args ...interface{}) {
	s := fmt.Sprintf(format, args...)
	for _, n := range x.notes {
		if n == s {
			return
		}
	}
	x.notes = append(x.notes, s)
}

func (x *vc) freshName(prefix string) string {
	x.fresh++
	return fmt.Sprintf("%s!%d", mangle(prefix), x.fresh)
}

func (x *vc) declare(name, sort string) {
	x.decls = append(x.decls, fmt.Sprintf("(declare-fun %s () %s)", name, sort))
}

// define introduces a named constant equal to term
func (x *vc) define(prefix, sort, term string) string {
	n := x.freshName(prefix)
	x.decls = append(x.decls, fmt.Sprintf("(define-fun %s () %s %s)", n, sort, term))
	return n
}

func (x *vc) assume(guard, fact string) {
	if fact == "true" || fact == "" {
		return
	}
	x.asserts = append(x.asserts, fmt.Sprintf("(assert %s)", implies(guard, fact)))
}

func (x *vc) freshVal(prefix string, t types.Type, st *state) Val {
	srt := x.srt.sortOf(t)
	n := x.freshName(prefix)
	x.declare(n, srt)
	v := Val{T: n, Typ: t}
	x.assume("true", x.typeInv(n, t, st))
	return v
}

// typeInv gives the shallow representation invariant of a value of Go type t
func (x *vc) typeInv(term string, t types.Type, st *state) string {
	if t == nil {
		return "true"
	}
	if lo, hi, ok := intRange(t); ok {
		return and(app("<=", lo, term), app("<=", term, hi))
	}
	switch x.srt.sortOf(t) {
	case sStr:
		// machine assumption: no string or slice is longer than 2^61 bytes / elements
		return and(app("<=", "0", app("slen", term)), app("<=", app("slen", term), "2305843009213693952"), app("<=", "0", app("soff", term)))
	case sSlice:
		return and(app("<=", "0", app("sl_len", term)), app("<=", app("sl_len", term), app("sl_cap", term)), app("<=", app("sl_cap", term), "2305843009213693952"), app("<=", "0", app("sl_off", term)),
			app("<=", "0", app("sl_arr", term)), implies(eq(app("sl_arr", term), "0"), and(eq(app("sl_len", term), "0"), eq(app("sl_cap", term), "0"))),
			x.refBound(app("sl_arr", term), st))
	case sIface:
		inv := and(app("<=", "0", app("itag", term)), implies(eq(app("itag", term), "0"), eq(app("ival", term), "0")))
		if x.nn("payload", typeKey(t)) {
			inv = and(inv, implies(not(eq(app("itag", term), "0")), not(eq(app("ival", term), "0"))))
		}
		return inv
	case sRV:
		return rvInv(term)
	case sInt:
		switch t.Underlying().(type) {
		case *types.Pointer, *types.Map:
			return and(app("<=", "0", term), x.refBound(term, st))
		}
	}
	if info, ok := x.srt.structInfo[x.srt.sortOf(t)]; ok {
		var cs []string
		for i, acc := range info.fields {
			cs = append(cs, x.typeInv(app(acc, term), info.st.Field(i).Type(), st))
		}
		return and(cs...)
	}
	return "true"
}

func (x *vc) refBound(term string, st *state) string {
	if st == nil || st.nextRef == "" {
		return "true"
	}
	return app("<", term, st.nextRef)
}

// ---------------------------------------------------------------------------
// Heap arrays

func (x *vc) heapArr(st *state, name, sort string) string {
	if cur, ok := st.heap[name]; ok {
		return cur
	}
	if _, ok := x.heapSorts[name]; !ok {
		x.heapSorts[name] = sort
		n0 := name + "!0"
		x.declare(n0, sort)
		x.heap0[name] = n0
	}
	st.heap[name] = x.heap0[name]
	return st.heap[name]
}

func structName(t types.Type) string {
	if p, ok := t.Underlying().(*types.Pointer); ok {
		t = p.Elem()
	}
	return shortTypeName(t)
}

func (x *vc) fieldArr(st *state, structT types.Type, i int) (name, sort string, ft types.Type) {
	s := structT.Underlying().(*types.Struct)
	f := s.Field(i)
	fs := x.srt.sortOf(f.Type())
	name = "F_" + structName(structT) + "_" + f.Name()
	sort = "(Array Int " + fs + ")"
	x.heapArr(st, name, sort)
	return name, sort, f.Type()
}

func (x *vc) cellArr(st *state, t types.Type) (name, sort string) {
	cs := x.srt.sortOf(t)
	name = "C_" + mangle(cs)
	sort = "(Array Int " + cs + ")"
	x.heapArr(st, name, sort)
	return
}

func (x *vc) elemArr(st *state, t types.Type) (name, sort string) {
	es := x.srt.sortOf(t)
	name = "E_" + mangle(es)
	sort = "(Array Int (Array Int " + es + "))"
	x.heapArr(st, name, sort)
	return
}

// read the content addressed by an lvalue
func (x *vc) loadLV(st *state, lv *lvalue) string {
	arr := x.heapArr(st, lv.arr, x.heapSorts[lv.arr])
	var t string
	if lv.idx != "" {
		t = app("select", app("select", arr, lv.ref), lv.idx)
	} else {
		t = app("select", arr, lv.ref)
	}
	for _, pe := range lv.path {
		if pe.sinfo != nil {
			t = app(pe.sinfo.fields[pe.field], t)
		} else {
			t = app("select", t, pe.index)
		}
	}
	return t
}

func updatePath(cur string, path []pathElem, v string) string {
	if len(path) == 0 {
		return v
	}
	pe := path[0]
	if pe.sinfo != nil {
		var args []string
		for i, acc := range pe.sinfo.fields {
			if i == pe.field {
				args = append(args, updatePath(app(acc, cur), path[1:], v))
			} else {
				args = append(args, app(acc, cur))
			}
		}
		return app("mk_"+pe.sinfo.sort, args...)
	}
	return app("store", cur, pe.index, updatePath(app("select", cur, pe.index), path[1:], v))
}

func (x *vc) storeLV(st *state, lv *lvalue, v string) {
	arr := x.heapArr(st, lv.arr, x.heapSorts[lv.arr])
	var nw string
	if lv.idx != "" {
		inner := app("select", arr, lv.ref)
		cur := app("select", inner, lv.idx)
		nw = app("store", arr, lv.ref, app("store", inner, lv.idx, updatePath(cur, lv.path, v)))
	} else {
		cur := app("select", arr, lv.ref)
		nw = app("store", arr, lv.ref, updatePath(cur, lv.path, v))
	}
	st.heap[lv.arr] = x.define(lv.arr, x.heapSorts[lv.arr], nw)
}

// loadStruct builds a struct value from the per-field arrays of the object at ref
func (x *vc) loadStruct(st *state, ref string, t types.Type) string {
	s := t.Underlying().(*types.Struct)
	srt := x.srt.sortOf(t)
	if _, ok := x.srt.structInfo[srt]; !ok {
		return "0"
	}
	if s.NumFields() == 0 {
		return app("mk_"+srt, "0")
	}
	var args []string
	for i := 0; i < s.NumFields(); i++ {
		name, sort, _ := x.fieldArr(st, t, i)
		args = append(args, app("select", x.heapArr(st, name, sort), ref))
	}
	return app("mk_"+srt, args...)
}

func (x *vc) storeStruct(st *state, ref string, t types.Type, v string) {
	s := t.Underlying().(*types.Struct)
	srt := x.srt.sortOf(t)
	info, ok := x.srt.structInfo[srt]
	if !ok {
		return
	}
	for i := 0; i < s.NumFields(); i++ {
		name, sort, _ := x.fieldArr(st, t, i)
		st.heap[name] = x.define(name, sort, app("store", x.heapArr(st, name, sort), ref, app(info.fields[i], v)))
	}
}

func isStructObj(t types.Type) bool {
	_, ok := t.Underlying().(*types.Struct)
	if !ok {
		return false
	}
	if isReflectValue(t) {
		return false
	}
	if _, named := t.(*types.Named); named && !isRepoType(t) {
		return false
	}
	return true
}

// pointer value -> lvalue for the pointee
func (x *vc) derefLV(st *state, p Val) *lvalue {
	if p.LV != nil {
		return p.LV
	}
	pt, ok := p.Typ.Underlying().(*types.Pointer)
	if !ok {
		panic(fmt.Sprintf("deref of non-pointer %v", p.Typ))
	}
	et := pt.Elem()
	if isStructObj(et) {
		return &lvalue{arr: "", ref: p.T, typ: et} // whole struct object: handled by load/storeStruct
	}
	name, _ := x.cellArr(st, et)
	return &lvalue{arr: name, ref: p.T, rsort: x.srt.sortOf(et), rtyp: et, typ: et}
}

func (x *vc) load(st *state, p Val) Val {
	lv := x.derefLV(st, p)
	if lv.arr == "" {
		return Val{T: x.loadStruct(st, lv.ref, lv.typ), Typ: lv.typ}
	}
	t := x.loadLV(st, lv)
	v := Val{T: t, Typ: lv.typ}
	return v
}

func (x *vc) store(st *state, p Val, v Val) {
	lv := x.derefLV(st, p)
	if lv.arr == "" {
		x.storeStruct(st, lv.ref, lv.typ, v.T)
		return
	}
	x.storeLV(st, lv, v.T)
}

// ---------------------------------------------------------------------------
// Obligations

func (x *vc) oblName(class, detail string) string {
	key := class
	if detail != "" {
		key += "@" + detail
	}
	n := x.counters[key]
	x.counters[key] = n + 1
	if x.nameOverride != "" {
		return fmt.Sprintf("%s:%s:%d", x.nameOverride, key, n)
	}
	return fmt.Sprintf("%s:%s:%d", fnKey(x.top), key, n)
}

func (x *vc) oblige(st *state, class, detail, goal, pos, desc string, auto bool) *obligation {
	if x.safetyOnly && !auto {
		return nil
	}
	x.implFacts()
	o := &obligation{name: x.oblName(class, detail), class: class, fn: fnKey(x.top), goal: goal, guard: st.guard,
		nDecl: len(x.decls), nAssert: len(x.asserts), pos: pos, desc: desc, auto: auto}
	// a clause label of the form "C04:name" or "C04" makes the obligation belong to that property only
	for _, part := range strings.Split(detail, ".") {
		if p := tagProp(part); p != "" {
			o.onlyProp = p
		}
	}
	if p := tagProp(detail); p != "" {
		o.onlyProp = p
	}
	x.obls = append(x.obls, o)
	return o
}

func dotTag(tag string) string {
	if tag == "" {
		return ""
	}
	return "." + tag
}

// tagProp extracts a property id from a clause label ("C04:else-branch" -> "C04")
func tagProp(tag string) string {
	if k := strings.Index(tag, ":"); k >= 0 {
		tag = tag[:k]
	}
	// "C15+C09": the clause belongs to both properties (a postcondition stated for C15 that callers' C09 obligations rely on)
	if strings.Contains(tag, "+") {
		for _, part := range strings.Split(tag, "+") {
			if tagProp(part) == "" {
				return ""
			}
		}
		return tag
	}
	if len(tag) >= 3 && tag[0] == 'C' {
		for _, c := range tag[1:] {
			if c < '0' || c > '9' {
				return ""
			}
		}
		return tag
	}
	return ""
}

// propMatch: does a clause label's property part ("C15" or "C15+C09") name property p?
func propMatch(only, p string) bool {
	for _, part := range strings.Split(only, "+") {
		if part == p {
			return true
		}
	}
	return false
}

// check = obligation, then assume it for the continuation (standard assert-then-assume)
func (x *vc) check(st *state, class, detail, goal, pos, desc string) {
	if goal == "true" {
		// still count trivially-true obligations? no: they carry no information
		return
	}
	x.oblige(st, class, detail, goal, pos, desc, true)
	x.assume(st.guard, goal)
}

// ---------------------------------------------------------------------------
// Frames and body execution

type frame struct {
	fn       *ssa.Function
	fc       *funcContract
	vals     map[ssa.Value]Val
	params   map[string]Val
	named    map[string][]namedDef
	exprText map[ssa.Value]string // source text of the expression each value stands for (from debug info)
	curBlock *ssa.BasicBlock      // block being executed (nil outside execBody): scope of names in in-body clauses
	depth    int
	entry    *state // state at function entry (for old())
	top      bool
	loops    []*loopInfo
	blockOut map[int]*state
	edgeCond map[[2]int]string
	rets     []retInfo
	results  []Val // for contract evaluation at exit
	freeVars map[string]Val
}

type namedDef struct {
	v    ssa.Value
	blk  *ssa.BasicBlock
	addr bool
}

type retInfo struct {
	guard string
	vals  []Val
	st    *state
}

type loopInfo struct {
	header   *ssa.BasicBlock
	ordinal  int
	body     map[int]bool
	backs    []*ssa.BasicBlock
	variant0 string
	invEnv   *cenv
	phiVals  map[*ssa.Phi]Val
}

func (x *vc) newFrame(fn *ssa.Function, depth int) *frame {
	fr := &frame{fn: fn, vals: map[ssa.Value]Val{}, params: map[string]Val{}, named: map[string][]namedDef{}, depth: depth,
		blockOut: map[int]*state{}, edgeCond: map[[2]int]string{}, freeVars: map[string]Val{}}
	fr.fc = x.p.cons.get(fnKey(fn))
	return fr
}

func (x *vc) framePrefix(fr *frame) string {
	if fr.top {
		return ""
	}
	return shortFn(fr.fn) + "."
}

// findLoops identifies natural loops using dominators
func findLoops(fn *ssa.Function) []*loopInfo {
	var loops []*loopInfo
	byHeader := map[*ssa.BasicBlock]*loopInfo{}
	for _, b := range fn.Blocks {
		for _, s := range b.Succs {
			if s.Dominates(b) {
				li := byHeader[s]
				if li == nil {
					li = &loopInfo{header: s, body: map[int]bool{s.Index: true}}
					byHeader[s] = li
					loops = append(loops, li)
				}
				li.backs = append(li.backs, b)
				// natural loop body
				stack := []*ssa.BasicBlock{b}
				for len(stack) > 0 {
					n := stack[len(stack)-1]
					stack = stack[:len(stack)-1]
					if li.body[n.Index] {
						continue
					}
					li.body[n.Index] = true
					stack = append(stack, n.Preds...)
				}
			}
		}
	}
	sort.Slice(loops, func(i, j int) bool { return loops[i].header.Index < loops[j].header.Index })
	// ordinal by source position of header when available, else by block index
	for i, l := range loops {
		l.ordinal = i
	}
	return loops
}

func isBackEdge(from, to *ssa.BasicBlock) bool { return to.Dominates(from) }

// topological order of blocks ignoring back edges
func topoOrder(fn *ssa.Function) []*ssa.BasicBlock {
	indeg := map[int]int{}
	for _, b := range fn.Blocks {
		for _, s := range b.Succs {
			if !isBackEdge(b, s) {
				indeg[s.Index]++
			}
		}
	}
	var order []*ssa.BasicBlock
	var ready []*ssa.BasicBlock
	for _, b := range fn.Blocks {
		if indeg[b.Index] == 0 && (b.Index == 0 || len(b.Preds) > 0 || b == fn.Recover) {
			if b.Index == 0 {
				ready = append(ready, b)
			}
		}
	}
	for len(ready) > 0 {
		// pick the smallest index for determinism
		sort.Slice(ready, func(i, j int) bool { return ready[i].Index < ready[j].Index })
		b := ready[0]
		ready = ready[1:]
		order = append(order, b)
		for _, s := range b.Succs {
			if isBackEdge(b, s) {
				continue
			}
			indeg[s.Index]--
			if indeg[s.Index] == 0 {
				ready = append(ready, s)
			}
		}
	}
	return order
}

func (x *vc) mergeStates(ins []*state, conds []string) *state {
	if len(ins) == 1 {
		s := ins[0].clone()
		s.guard = conds[0]
		return s
	}
	out := &state{heap: map[string]string{}}
	out.guard = x.define("g", sBool, or(conds...))
	names := map[string]bool{}
	for _, s := range ins {
		for k := range s.heap {
			names[k] = true
		}
	}
	var ks []string
	for k := range names {
		ks = append(ks, k)
	}
	sort.Strings(ks)
	for _, k := range ks {
		var vs []string
		same := true
		for _, s := range ins {
			v, ok := s.heap[k]
			if !ok {
				v = x.heap0[k]
			}
			vs = append(vs, v)
			if v != vs[0] {
				same = false
			}
		}
		if same {
			out.heap[k] = vs[0]
			continue
		}
		t := vs[len(vs)-1]
		for i := len(vs) - 2; i >= 0; i-- {
			t = ite(conds[i], vs[i], t)
		}
		out.heap[k] = x.define(k, x.heapSorts[k], t)
	}
	// nextRef
	same := true
	for _, s := range ins {
		if s.nextRef != ins[0].nextRef {
			same = false
		}
	}
	if same {
		out.nextRef = ins[0].nextRef
	} else {
		t := ins[len(ins)-1].nextRef
		for i := len(ins) - 2; i >= 0; i-- {
			t = ite(conds[i], ins[i].nextRef, t)
		}
		out.nextRef = x.define("nextRef", sInt, t)
	}
	return out
}

type execResult struct {
	vals  []Val
	st    *state
	noRet bool // function never returns normally
}

// execBody symbolically executes fn's body from state st with the frame's params bound.
func (x *vc) execBody(fr *frame, st0 *state) execResult {
	fn := fr.fn
	fr.entry = st0.clone()
	fr.loops = findLoops(fn)
	// source-level names of SSA values (debug info), for use in loop invariants and postconditions
	for _, b := range fn.Blocks {
		for _, instr := range b.Instrs {
			if dr, ok := instr.(*ssa.DebugRef); ok && dr.Object() != nil {
				fr.named[dr.Object().Name()] = append(fr.named[dr.Object().Name()], namedDef{v: dr.X, blk: dr.Block(), addr: dr.IsAddr})
			}
			// source text of the expression an SSA value stands for (anchor of `atif` clauses)
			if dr, ok := instr.(*ssa.DebugRef); ok && dr.Expr != nil && !dr.IsAddr {
				if fr.exprText == nil {
					fr.exprText = map[ssa.Value]string{}
				}
				if _, have := fr.exprText[dr.X]; !have {
					fr.exprText[dr.X] = types.ExprString(dr.Expr)
				}
			}
		}
	}
	loopOf := map[*ssa.BasicBlock]*loopInfo{}
	for _, l := range fr.loops {
		loopOf[l.header] = l
	}
	order := topoOrder(fn)
	for _, b := range order {
		var st *state
		li := loopOf[b]
		if b.Index == 0 {
			st = st0.clone()
		} else {
			var ins []*state
			var conds []string
			var preds []*ssa.BasicBlock
			for _, p := range b.Preds {
				if isBackEdge(p, b) {
					continue
				}
				ps, ok := fr.blockOut[p.Index]
				if !ok {
					continue // unreachable predecessor
				}
				c := fr.edgeCond[[2]int{p.Index, b.Index}]
				ins = append(ins, ps)
				conds = append(conds, and(ps.guard, c))
				preds = append(preds, p)
			}
			if len(ins) == 0 {
				continue
			}
			st = x.mergeStates(ins, conds)
			// phis
			for _, instr := range b.Instrs {
				phi, ok := instr.(*ssa.Phi)
				if !ok {
					break
				}
				var vs []Val
				for _, p := range preds {
					for k, bp := range b.Preds {
						if bp == p {
							vs = append(vs, x.value(fr, st, phi.Edges[k]))
							break
						}
					}
				}
				fr.vals[phi] = x.mergeVals(vs, conds, phi.Type(), phi.Comment)
			}
		}
		if li != nil {
			x.loopHeader(fr, st, li)
		}
		if b.Index != 0 && st.guard != "false" && (fr.top || probeInlined) {
			kind := "block"
			if len(b.Instrs) > 0 {
				if _, isPanic := b.Instrs[len(b.Instrs)-1].(*ssa.Panic); isPanic {
					kind = "panic-block"
				}
			}
			x.reach = append(x.reach, &obligation{name: x.oblName("reach", fmt.Sprintf("%sb%d", x.framePrefix(fr), b.Index)), class: "reach", fn: fnKey(x.top),
				goal: "false", guard: st.guard, nDecl: len(x.decls), nAssert: len(x.asserts), pos: x.p.pos(firstPos(b)), desc: kind + " reachable under the contract (probe)", auto: true, canary: true, soft: true})
		}
		fr.curBlock = b
		noFall := x.execBlock(fr, st, b)
		if noFall {
			continue
		}
	}
	fr.curBlock = nil
	// merge returns
	if len(fr.rets) == 0 {
		return execResult{noRet: true, st: st0}
	}
	var ins []*state
	var conds []string
	for _, r := range fr.rets {
		ins = append(ins, r.st)
		conds = append(conds, r.guard)
	}
	out := x.mergeStates(ins, conds)
	n := len(fr.rets[0].vals)
	var vals []Val
	for i := 0; i < n; i++ {
		var vs []Val
		for _, r := range fr.rets {
			vs = append(vs, r.vals[i])
		}
		vals = append(vals, x.mergeVals(vs, conds, fn.Signature.Results().At(i).Type(), "ret"))
	}
	return execResult{vals: vals, st: out}
}

func (x *vc) mergeVals(vs []Val, conds []string, t types.Type, hint string) Val {
	if len(vs) == 0 {
		return x.freshVal("undef", t, nil)
	}
	same := true
	for _, v := range vs {
		if v.T != vs[0].T || v.Fn != vs[0].Fn {
			same = false
		}
	}
	if same && vs[0].LV == nil {
		return vs[0]
	}
	for _, v := range vs {
		if v.LV != nil || v.T == "" {
			x.note("merge of address/opaque values at %s: havoc", hint)
			return x.freshVal("phi_"+hint, t, nil)
		}
	}
	term := vs[len(vs)-1].T
	for i := len(vs) - 2; i >= 0; i-- {
		term = ite(conds[i], vs[i].T, term)
	}
	if hint == "" {
		hint = "phi"
	}
	return Val{T: x.define("phi_"+hint, x.srt.sortOf(t), term), Typ: t}
}

// collect heap arrays possibly modified by a set of blocks
type modSet struct {
	all bool
	// storeAll: `all` is (also) due to a store of the scanned region itself whose target is not understood
	// (as opposed to calls, which cannot reach the local objects of the function under verification)
	storeAll bool
	arrays   map[string][]string // array -> refs ("*" = any)
}

func (m *modSet) add(arr, ref string) {
	if m.arrays == nil {
		m.arrays = map[string][]string{}
	}
	for _, r := range m.arrays[arr] {
		if r == ref || r == "*" {
			return
		}
	}
	if ref == "*" {
		m.arrays[arr] = []string{"*"}
		return
	}
	m.arrays[arr] = append(m.arrays[arr], ref)
}

func (x *vc) loopHeader(fr *frame, st *state, li *loopInfo) {
	fn := fr.fn
	var invs []*clause
	var decr *clause
	if fr.fc != nil {
		invs = fr.fc.invs[li.ordinal]
		decr = fr.fc.decr[li.ordinal]
	}
	pos := x.p.pos(firstPos(li.header))
	// phi entry values are already in fr.vals (merged over forward preds)
	env := x.contractEnv(fr, st, li.header)
	autos := x.autoInvariants(fr, li)
	// 1. invariants hold on entry
	for k, inv := range invs {
		g := x.evalBool(env, inv.expr)
		x.oblige(st, "inv-entry", fmt.Sprintf("%sloop%d.%d%s", x.framePrefix(fr), li.ordinal, k, dotTag(inv.tag)), g, pos, "loop invariant holds on entry: "+inv.text, false)
	}
	entryPhis := map[*ssa.Phi]Val{}
	for _, instr := range li.header.Instrs {
		if phi, ok := instr.(*ssa.Phi); ok {
			entryPhis[phi] = fr.vals[phi]
		}
	}
	for _, a := range autos {
		g := a.holds(entryPhis[a.phi].T)
		if g != "true" {
			x.oblige(st, "inv-entry", fmt.Sprintf("%sloop%d.auto", x.framePrefix(fr), li.ordinal), g, pos, "inferred counter bound holds on entry", true)
		}
	}
	// 2. havoc
	mod := x.modifiedIn(fr, st, li)
	if fr.top {
		// ghost call counters mentioned by the contract: any loop may run their call sites (its invariant says how often)
		if x.counted == nil {
			x.counted = countedSites(x.topFC)
		}
		var sites []string
		for site := range x.counted {
			sites = append(sites, site)
		}
		sort.Strings(sites)
		for _, site := range sites {
			x.counter(st, site)
			mod.add(counterName(site), "*")
		}
	}
	x.curTail = false
	x.havoc(st, mod, fmt.Sprintf("loop%d", li.ordinal))
	if st.nextRef != "" {
		nr := x.freshName("nextRef")
		x.declare(nr, sInt)
		x.assume("true", app(">=", nr, st.nextRef))
		st.nextRef = nr
	}
	li.phiVals = map[*ssa.Phi]Val{}
	for _, instr := range li.header.Instrs {
		phi, ok := instr.(*ssa.Phi)
		if !ok {
			break
		}
		old := fr.vals[phi]
		if old.LV != nil || (old.T == "" && old.Fn == nil) {
			continue
		}
		// is the phi really loop-variant? (some edge from a back edge differs)
		nv := x.freshVal("loop_"+phi.Comment, phi.Type(), st)
		if old.Fn != nil {
			// function-valued phi: keep if all back-edge values are the phi itself
			keep := true
			for k, p := range li.header.Preds {
				if isBackEdge(p, li.header) && phi.Edges[k] != ssa.Value(phi) {
					keep = false
				}
			}
			if keep {
				continue
			}
		}
		fr.vals[phi] = nv
		li.phiVals[phi] = nv
		if old.T != "" && nv.T != "" {
			// preference used when a counterexample is extracted: the failure happens in the first iteration
			x.firstIter = append(x.firstIter, firstIterPref{eq(nv.T, old.T), len(x.decls)})
		}
	}
	// 3. assume invariants
	env2 := x.contractEnv(fr, st, li.header)
	for _, inv := range invs {
		x.assume(st.guard, x.evalBool(env2, inv.expr))
	}
	for _, a := range autos {
		x.assume(st.guard, a.holds(fr.vals[a.phi].T))
	}
	if decr != nil {
		li.variant0 = x.define("variant", sInt, x.evalInt(env2, decr.expr))
	}
	_ = fn
}

type autoInv struct {
	phi   *ssa.Phi
	lower bool
	bound string
}

func (a autoInv) holds(t string) string {
	if a.lower {
		return app(">=", t, a.bound)
	}
	return app("<=", t, a.bound)
}

// autoInvariants infers lower/upper bounds for simple counters: phi = [init, phi +/- c]
func (x *vc) autoInvariants(fr *frame, li *loopInfo) []autoInv {
	var out []autoInv
	for _, instr := range li.header.Instrs {
		phi, ok := instr.(*ssa.Phi)
		if !ok {
			break
		}
		if _, _, isInt := intRange(phi.Type()); !isInt {
			continue
		}
		var init *ssa.Const
		dir := 0
		okAll := true
		for k, p := range li.header.Preds {
			e := phi.Edges[k]
			if isBackEdge(p, li.header) {
				bo, isBin := e.(*ssa.BinOp)
				if !isBin {
					okAll = false
					break
				}
				c, isC := bo.Y.(*ssa.Const)
				if bo.X != ssa.Value(phi) || !isC || c.Value == nil || c.Value.Kind() != constant.Int {
					okAll = false
					break
				}
				sgn := constant.Sign(c.Value)
				d := 0
				if (bo.Op == token.ADD && sgn > 0) || (bo.Op == token.SUB && sgn < 0) {
					d = 1
				} else if (bo.Op == token.ADD && sgn < 0) || (bo.Op == token.SUB && sgn > 0) {
					d = -1
				} else {
					okAll = false
					break
				}
				if dir != 0 && dir != d {
					okAll = false
					break
				}
				dir = d
			} else {
				c, isC := e.(*ssa.Const)
				if !isC || c.Value == nil || c.Value.Kind() != constant.Int {
					okAll = false
					break
				}
				if init != nil && init.Int64() != c.Int64() {
					okAll = false
					break
				}
				init = c
			}
		}
		if !okAll || init == nil || dir == 0 {
			continue
		}
		out = append(out, autoInv{phi: phi, lower: dir > 0, bound: smtInt(init.Int64())})
		// range-index pattern: next = phi + 1; if next < N goto body  ==>  phi <= N - 1 (N loop-invariant, init <= N-1 is checked on entry)
		if dir > 0 {
			for k, p := range li.header.Preds {
				if !isBackEdge(p, li.header) {
					continue
				}
				bo, _ := phi.Edges[k].(*ssa.BinOp)
				if bo == nil || bo.Block() != li.header {
					continue
				}
				if iff, ok := li.header.Instrs[len(li.header.Instrs)-1].(*ssa.If); ok {
					if cmp, ok := iff.Cond.(*ssa.BinOp); ok && cmp.Op == token.LSS && cmp.X == ssa.Value(bo) {
						if nv, ok := fr.vals[cmp.Y]; ok && nv.T != "" {
							if ni, isInstr := cmp.Y.(ssa.Instruction); !isInstr || !li.body[ni.Block().Index] {
								out = append(out, autoInv{phi: phi, lower: false, bound: app("-", nv.T, "1")})
							}
						}
					}
				}
				break
			}
		}
	}
	return out
}

func firstPos(b *ssa.BasicBlock) token.Pos {
	for _, i := range b.Instrs {
		if i.Pos().IsValid() {
			return i.Pos()
		}
	}
	for _, s := range b.Succs {
		for _, i := range s.Instrs {
			if i.Pos().IsValid() {
				return i.Pos()
			}
		}
	}
	return token.NoPos
}

func (x *vc) havoc(st *state, mod *modSet, why string) {
	if mod.all {
		var ks []string
		for k := range x.heapSorts {
			ks = append(ks, k)
		}
		sort.Strings(ks)
		old := map[string]string{}
		for _, k := range ks {
			if strings.HasPrefix(k, "GCNT_") && !strings.HasPrefix(why, "loop") {
				continue // ghost call counters of the function under verification: no callee can change them
			}
			if cur, ok := st.heap[k]; ok {
				old[k] = cur
			}
			n := x.freshName(k)
			x.declare(n, x.heapSorts[k])
			st.heap[k] = n
		}
		if !mod.storeAll {
			x.preserveLocals(old, st.heap, mod.arrays)
		}
		x.note("havoc of the whole heap (%s)", why)
		x.reassumeTables(st, "")
		return
	}
	var ks []string
	for k := range mod.arrays {
		ks = append(ks, k)
	}
	sort.Strings(ks)
	for _, k := range ks {
		refs := mod.arrays[k]
		srt := x.heapSorts[k]
		cur := x.heapArr(st, k, srt)
		if len(refs) == 1 && refs[0] == "*" {
			n := x.freshName(k)
			x.declare(n, srt)
			st.heap[k] = n
			continue
		}
		n := x.freshName(k + "_hv")
		x.declare(n, srt)
		t := cur
		for _, r := range refs {
			t = app("store", t, r, app("select", n, r))
		}
		st.heap[k] = x.define(k, srt, t)
	}
	for _, k := range ks {
		x.reassumeTables(st, k)
	}
}

// reassumeTables restates the fixed content of immutable table backing arrays after a havoc
func (x *vc) reassumeTables(st *state, arr string) {
	for _, t := range x.tableRefs {
		if arr == "" || t.arr == arr {
			x.assume("true", eq(app("select", st.heap[t.arr], t.ref), t.content))
		}
	}
}

// modifiedIn computes the heap arrays a loop may modify
func (x *vc) modifiedIn(fr *frame, st *state, li *loopInfo) *modSet {
	mod := &modSet{}
	seen := map[*ssa.Function]bool{}
	for _, b := range fr.fn.Blocks {
		if !li.body[b.Index] {
			continue
		}
		x.modsOfBlock(fr, st, b, li, mod, seen, 0)
	}
	return mod
}

func (x *vc) addrRootOutside(fr *frame, v ssa.Value, li *loopInfo) (Val, bool) {
	// is v (a pointer) defined outside the loop and already evaluated?
	if li == nil {
		return Val{}, false
	}
	switch d := v.(type) {
	case *ssa.Parameter, *ssa.Global, *ssa.FreeVar:
		val, ok := fr.vals[v]
		if _, isG := v.(*ssa.Global); isG {
			return Val{T: x.globalRef(v.(*ssa.Global)), Typ: v.Type()}, true
		}
		return val, ok
	case ssa.Instruction:
		if d.Block() != nil && !li.body[d.Block().Index] {
			val, ok := fr.vals[v]
			return val, ok
		}
	}
	return Val{}, false
}

// addrRoot follows FieldAddr/IndexAddr chains to the pointer they are derived from
func addrRoot(v ssa.Value) ssa.Value {
	for {
		switch a := v.(type) {
		case *ssa.FieldAddr:
			v = a.X
		case *ssa.IndexAddr:
			if _, isPtr := a.X.Type().Underlying().(*types.Pointer); isPtr {
				v = a.X
			} else {
				return v
			}
		default:
			return v
		}
	}
}

func (x *vc) modsOfStoreAddr(fr *frame, st *state, addr ssa.Value, li *loopInfo, mod *modSet) {
	// a store into an object allocated inside the scanned region cannot change any object that existed before it
	if al, ok := addrRoot(addr).(*ssa.Alloc); ok && li != nil && al.Block() != nil && al.Parent() == fr.fn && li.body[al.Block().Index] {
		return
	}
	switch a := addr.(type) {
	case *ssa.FieldAddr:
		pt := a.X.Type().Underlying().(*types.Pointer).Elem()
		// nested path?
		if inner, ok := a.X.(*ssa.FieldAddr); ok {
			x.modsOfStoreAddr(fr, st, inner, li, mod)
			return
		}
		if inner, ok := a.X.(*ssa.IndexAddr); ok {
			x.modsOfStoreAddr(fr, st, inner, li, mod)
			return
		}
		name, _, _ := x.fieldArr(st, pt, a.Field)
		if rv, ok := x.addrRootOutside(fr, a.X, li); ok && rv.LV == nil && rv.T != "" {
			mod.add(name, rv.T)
		} else {
			mod.add(name, "*")
		}
	case *ssa.IndexAddr:
		switch xt := a.X.Type().Underlying().(type) {
		case *types.Slice:
			name, _ := x.elemArr(st, xt.Elem())
			if rv, ok := x.addrRootOutside(fr, a.X, li); ok && rv.LV == nil && rv.T != "" {
				mod.add(name, app("sl_arr", rv.T))
			} else {
				mod.add(name, "*")
			}
		case *types.Pointer: // pointer to array
			if inner, ok := a.X.(*ssa.FieldAddr); ok {
				x.modsOfStoreAddr(fr, st, inner, li, mod)
				return
			}
			name, _ := x.cellArr(st, xt.Elem())
			if rv, ok := x.addrRootOutside(fr, a.X, li); ok && rv.LV == nil && rv.T != "" {
				mod.add(name, rv.T)
			} else {
				mod.add(name, "*")
			}
		}
	default:
		pt, ok := addr.Type().Underlying().(*types.Pointer)
		if !ok {
			mod.all = true
			mod.storeAll = true
			return
		}
		et := pt.Elem()
		if isStructObj(et) {
			s := et.Underlying().(*types.Struct)
			for i := 0; i < s.NumFields(); i++ {
				name, _, _ := x.fieldArr(st, et, i)
				if rv, ok := x.addrRootOutside(fr, addr, li); ok && rv.LV == nil && rv.T != "" {
					mod.add(name, rv.T)
				} else {
					mod.add(name, "*")
				}
			}
			return
		}
		name, _ := x.cellArr(st, et)
		if rv, ok := x.addrRootOutside(fr, addr, li); ok && rv.LV == nil && rv.T != "" {
			mod.add(name, rv.T)
		} else {
			mod.add(name, "*")
		}
	}
}

func (x *vc) modsOfBlock(fr *frame, st *state, b *ssa.BasicBlock, li *loopInfo, mod *modSet, seen map[*ssa.Function]bool, depth int) {
	for _, instr := range b.Instrs {
		switch in := instr.(type) {
		case *ssa.Store:
			x.modsOfStoreAddr(fr, st, in.Addr, li, mod)
		case *ssa.MapUpdate:
			mt := in.Map.Type().Underlying().(*types.Map)
			d, v, l := x.mapArrs(st, mt)
			ref := "*"
			if mv, ok := x.addrRootOutside(fr, in.Map, li); ok && mv.T != "" {
				ref = mv.T // the one map object written (a value defined before the loop)
			}
			mod.add(d, ref)
			mod.add(v, ref)
			mod.add(l, ref)
		case *ssa.Next:
			if in.IsString {
				name, _ := x.cellArr(st, types.Typ[types.Int])
				if rng, ok := in.Iter.(*ssa.Range); ok {
					if rv, ok2 := x.addrRootOutside(fr, rng, li); ok2 && rv.Iter != nil {
						mod.add(name, rv.Iter.cell)
						continue
					}
					if li != nil && rng.Parent() == fr.fn && rng.Block() != nil && li.body[rng.Block().Index] {
						continue // an iterator created inside the scanned region is a fresh cell each time
					}
				}
				mod.add(name, "*")
			} else if rng, ok := in.Iter.(*ssa.Range); ok {
				// map iteration: the ghost set of visited keys of this iterator
				if mt, isMap := rng.X.Type().Underlying().(*types.Map); isMap {
					mod.add(x.visitedArr(st, mt), "*")
				}
			}
		case *ssa.Range:
			if mt, isMap := in.X.Type().Underlying().(*types.Map); isMap {
				mod.add(x.visitedArr(st, mt), "*")
			}
		case *ssa.Alloc:
			// re-executed allocations are fresh objects; their fields are initialised at the Alloc
		case ssa.CallInstruction:
			x.modsOfCall(fr, st, in, li, mod, seen, depth)
		}
	}
}

func (x *vc) modsOfCall(fr *frame, st *state, in ssa.CallInstruction, li *loopInfo, mod *modSet, seen map[*ssa.Function]bool, depth int) {
	cc := in.Common()
	var callee *ssa.Function
	if cc.IsInvoke() {
		if ic := x.ifaceContract(cc); ic != nil && ic.assigns != nil {
			if len(ic.assigns) > 0 {
				mod.all = true
			}
			return
		}
		mod.all = true
		return
	}
	callee = cc.StaticCallee()
	if callee == nil {
		// closure value known?
		if mc, ok := cc.Value.(*ssa.MakeClosure); ok {
			callee = mc.Fn.(*ssa.Function)
		} else if v, ok := fr.vals[cc.Value]; ok && v.Fn != nil {
			callee = v.Fn
		} else if _, isB := cc.Value.(*ssa.Builtin); isB {
			b := cc.Value.(*ssa.Builtin)
			if b.Name() == "append" || b.Name() == "copy" {
				if sl, ok := cc.Args[0].Type().Underlying().(*types.Slice); ok {
					name, _ := x.elemArr(st, sl.Elem())
					mod.add(name, "*")
				}
			}
			if b.Name() == "delete" {
				mod.all = true
				mod.storeAll = true
			}
			return
		} else {
			// a field declared to always hold a given function
			if ld, ok := cc.Value.(*ssa.UnOp); ok && callee == nil {
				if fad, ok := ld.X.(*ssa.FieldAddr); ok {
					if key, ok := x.p.cons.funcFields[fieldKey(fad.X.Type(), fad.Field)]; ok && x.p.funcs[key] != nil {
						callee = x.p.funcs[key]
					}
				}
			}
			if callee == nil {
				if ft := x.functypeContract(cc.Value.Type()); ft != nil && ft.assigns != nil {
					for _, a := range ft.assigns {
						x.modsOfAssignsClause(fr, st, nil, cc, a, li, mod)
					}
					return
				}
				mod.all = true
				return
			}
		}
	}
	if fc := x.p.cons.get(fnKey(callee)); fc != nil && !fc.inline {
		if fc.assigns == nil {
			if fc.pure {
				return
			}
			mod.all = true
			return
		}
		for _, a := range fc.assigns {
			x.modsOfAssignsClause(fr, st, callee, cc, a, li, mod)
		}
		return
	}
	if !isRepoFn(callee) {
		if x.externalWrites(callee) {
			mod.all = true
		}
		return
	}
	if seen[callee] || depth > 8 {
		if depth > 8 {
			mod.all = true
		}
		return
	}
	seen[callee] = true
	// transitively: the callee's stores (refs unknown -> "*") unless parameters map to outside values
	sub := &frame{fn: callee, vals: map[ssa.Value]Val{}}
	args := cc.Args
	for i, p := range callee.Params {
		if i < len(args) {
			if rv, ok := x.addrRootOutside(fr, args[i], li); ok {
				sub.vals[p] = rv
			} else if mc, ok := args[i].(*ssa.MakeClosure); ok {
				sub.vals[p] = Val{Fn: mc.Fn.(*ssa.Function), Typ: p.Type()}
			} else if f, ok := args[i].(*ssa.Function); ok {
				sub.vals[p] = Val{Fn: f, Typ: p.Type()}
			} else if v, ok := fr.vals[args[i]]; ok && v.Fn != nil {
				sub.vals[p] = Val{Fn: v.Fn, Typ: p.Type()}
			}
		}
	}
	fakeLoop := &loopInfo{body: map[int]bool{}}
	for _, b := range callee.Blocks {
		fakeLoop.body[b.Index] = true
	}
	for _, b := range callee.Blocks {
		x.modsOfBlock(sub, st, b, fakeLoop, mod, seen, depth+1)
	}
}

func (x *vc) modsOfAssignsClause(fr *frame, st *state, callee *ssa.Function, cc *ssa.CallCommon, a *clause, li *loopInfo, mod *modSet) {
	e := a.expr
	// forms: p.f   |  p.f.g (nested struct field -> root field)  |  *p | s[*] | heap
	if e.op == "id" && e.name == "heap" {
		mod.all = true
		return
	}
	// deref(p.f) with f a map field: the entries of maps of that type (which object is not tracked here: all of them)
	if e.op == "call" && e.name == "deref" && len(e.args) == 1 && e.args[0].op == "sel" && e.args[0].args[0].op == "id" && callee != nil {
		for _, p := range callee.Params {
			if p.Name() != e.args[0].args[0].name {
				continue
			}
			if pt, ok := p.Type().Underlying().(*types.Pointer); ok {
				if s, ok := pt.Elem().Underlying().(*types.Struct); ok {
					for k := 0; k < s.NumFields(); k++ {
						if mt, isMap := s.Field(k).Type().Underlying().(*types.Map); isMap && s.Field(k).Name() == e.args[0].name {
							d, v, l := x.mapArrs(st, mt)
							mod.add(d, "*")
							mod.add(v, "*")
							mod.add(l, "*")
							return
						}
					}
				}
			}
		}
	}
	root := e
	for root.op == "sel" && root.args[0].op == "sel" {
		root = root.args[0]
	}
	if root.op == "sel" && root.args[0].op == "id" && callee == nil {
		// functype / iface contract: parameters are named positionally (arg0, arg1, ...)
		pname := root.args[0].name
		for i, av := range cc.Args {
			if pname != fmt.Sprintf("arg%d", i) {
				continue
			}
			pt, ok := av.Type().Underlying().(*types.Pointer)
			if !ok {
				break
			}
			s, ok := pt.Elem().Underlying().(*types.Struct)
			if !ok {
				break
			}
			for k := 0; k < s.NumFields(); k++ {
				if s.Field(k).Name() == root.name {
					name, _, _ := x.fieldArr(st, pt.Elem(), k)
					if rv, ok := x.addrRootOutside(fr, av, li); ok && rv.LV == nil && rv.T != "" {
						mod.add(name, rv.T)
					} else {
						mod.add(name, "*")
					}
					return
				}
			}
		}
	}
	if root.op == "sel" && root.args[0].op == "id" && callee != nil {
		pname := root.args[0].name
		for i, p := range callee.Params {
			if p.Name() == pname {
				pt, ok := p.Type().Underlying().(*types.Pointer)
				if !ok {
					break
				}
				s, ok := pt.Elem().Underlying().(*types.Struct)
				if !ok {
					break
				}
				for k := 0; k < s.NumFields(); k++ {
					if s.Field(k).Name() == root.name {
						name, _, _ := x.fieldArr(st, pt.Elem(), k)
						if rv, ok := x.addrRootOutside(fr, cc.Args[i], li); ok && rv.LV == nil && rv.T != "" {
							mod.add(name, rv.T)
						} else {
							mod.add(name, "*")
						}
						return
					}
				}
			}
		}
	}
	if e.op == "call" && e.name == "elems" && len(e.args) == 1 && e.args[0].op == "id" {
		for _, p := range callee.Params {
			if p.Name() == e.args[0].name {
				if sl, ok := p.Type().Underlying().(*types.Slice); ok {
					name, _ := x.elemArr(st, sl.Elem())
					mod.add(name, "*")
					return
				}
			}
		}
	}
	who := "function-type contract"
	if callee != nil {
		who = fnKey(callee)
	}
	x.note("assigns clause %q of %s not understood: havoc all", a.text, who)
	mod.all = true
}

// externalWrites: does an external (stdlib) function write memory visible to the verified code?
func (x *vc) externalWrites(fn *ssa.Function) bool {
	name := fn.String()
	switch {
	case strings.HasPrefix(name, "sort."), strings.HasPrefix(name, "(*strings.Builder)"), strings.HasPrefix(name, "(*bytes.Buffer)"),
		strings.HasPrefix(name, "encoding/json.Unmarshal"), strings.HasPrefix(name, "(*encoding/json.Decoder)"),
		strings.HasPrefix(name, "(reflect.Value).Set"), strings.HasPrefix(name, "reflect.Copy"), strings.HasPrefix(name, "math/rand.Shuffle"):
		return true
	}
	return false
}
