package jsonata

// Witness for the defect found by obligation evalFunctionApplication:nonnil@elem:1 (property C09): f ~> g tests its
// left side with jtypes.IsCallable but builds the chain from jtypes.AsCallable(lhs) with the success flag thrown
// away. For a value whose *pointer* type implements Callable but which is not addressable (a struct value registered
// as a variable) IsCallable says yes and AsCallable says no, so the chain holds a nil function and calling it is a
// nil pointer dereference that escapes Eval. Repaired by the commit recorded in /verif/known_findings.jsonl (the
// left side is a function exactly when AsCallable yields one; otherwise it is the argument of the right side).

import (
	"fmt"
	"reflect"
	"testing"
)

type witnessValueCallable struct {
	callableName
	callableMarshaler
}

func (*witnessValueCallable) Call(argv []reflect.Value) (reflect.Value, error) {
	return reflect.ValueOf("called"), nil
}
func (*witnessValueCallable) ParamCount() int { return 1 }

func TestWitnessC09ChainOfValueCallable(t *testing.T) {
	defer func() {
		if r := recover(); r != nil {
			t.Fatalf("WITNESS: ($f ~> $string)(1) panics: %v", r)
		}
	}()
	ex := MustCompile(`($f ~> $string)(1)`)
	if err := ex.RegisterVars(map[string]interface{}{"f": witnessValueCallable{}}); err != nil {
		t.Fatal(err)
	}
	if _, err := ex.Eval(nil); err == nil {
		t.Fatalf("a struct value that cannot be called was accepted as a function")
	}
	// ordinary chains are unaffected
	v, err := MustCompile(`($uppercase ~> $length)("abc")`).Eval(nil)
	if err != nil || fmt.Sprint(v) != "3" {
		t.Fatalf("ordinary chain: %v %v", v, err)
	}
}
