package main

import (
	"crypto/sha256"
	"fmt"
	"go/ast"
	"go/token"
	"go/types"
	"os"
	"path/filepath"
	"sort"
	"strings"

	"golang.org/x/tools/go/packages"
	"golang.org/x/tools/go/ssa"
	"golang.org/x/tools/go/ssa/ssautil"
)

const modPath = "github.com/blues/jsonata-go"

type program struct {
	repo   string
	pkgs   []*packages.Package
	prog   *ssa.Program
	spkgs  map[string]*ssa.Package // by path
	ppkgs  map[string]*packages.Package
	funcs  map[string]*ssa.Function // key: pkgpath.RelString
	fset   *token.FileSet
	cons   *contracts
	loadS  float64
	allFns map[*ssa.Function]bool
}

// pkgDir returns the directory (relative to the repo root) of a package path
func pkgDir(path string) string {
	if path == modPath {
		return "."
	}
	return strings.TrimPrefix(path, modPath+"/")
}

func loadProgram(repo string, verifDir string) (*program, error) {
	p := &program{repo: repo, spkgs: map[string]*ssa.Package{}, ppkgs: map[string]*packages.Package{}, funcs: map[string]*ssa.Function{}}
	cfg := &packages.Config{Mode: packages.LoadAllSyntax, Dir: repo, BuildFlags: []string{"-tags=verif"},
		Env: append(os.Environ(), "GOFLAGS=-mod=mod", "GOPROXY=off", "GOSUMDB=off", "GOTOOLCHAIN=local")}
	pkgs, err := packages.Load(cfg, modPath, modPath+"/jparse", modPath+"/jlib", modPath+"/jlib/jxpath", modPath+"/jtypes")
	if err != nil {
		return nil, err
	}
	for _, pk := range pkgs {
		if len(pk.Errors) > 0 {
			return nil, fmt.Errorf("package %s: %v", pk.PkgPath, pk.Errors[0])
		}
	}
	p.pkgs = pkgs
	prog, spkgs := ssautil.AllPackages(pkgs, ssa.GlobalDebug)
	prog.Build()
	p.prog = prog
	for i, sp := range spkgs {
		if sp == nil {
			continue
		}
		p.spkgs[sp.Pkg.Path()] = sp
		p.ppkgs[sp.Pkg.Path()] = pkgs[i]
		p.fset = pkgs[i].Fset
	}
	p.allFns = ssautil.AllFunctions(prog)
	for fn := range p.allFns {
		if fn.Pkg == nil || !strings.HasPrefix(fn.Pkg.Pkg.Path(), modPath) {
			continue
		}
		if fn.Synthetic != "" && !strings.HasPrefix(fn.Synthetic, "package init") {
			continue
		}
		key := fn.Pkg.Pkg.Path() + "." + fn.RelString(fn.Pkg.Pkg)
		p.funcs[key] = fn
	}
	// contracts: /repo/<pkg>/zz_contracts_verif.go if present, else /verif/contracts/<pkg>.go
	p.cons = &contracts{funcs: map[string]*funcContract{}, preds: map[string]*predDef{}, hashes: map[string]string{}}
	var paths []string
	for path := range p.spkgs {
		paths = append(paths, path)
	}
	sort.Strings(paths)
	for _, path := range paths {
		inRepo := filepath.Join(repo, pkgDir(path), "zz_contracts_verif.go")
		mirror := filepath.Join(verifDir, "contracts", mangle(pkgDir(path))+".go")
		use := ""
		if _, err := os.Stat(inRepo); err == nil {
			use = inRepo
		} else if _, err := os.Stat(mirror); err == nil {
			use = mirror
		}
		if use == "" {
			continue
		}
		if err := loadContractFile(p.cons, use, path); err != nil {
			return nil, err
		}
		data, _ := os.ReadFile(use)
		p.cons.hashes[use] = fmt.Sprintf("%x", sha256.Sum256(data))[:16]
	}
	// "implements": a function inherits the clauses of the functype / iface contract it must satisfy
	for key, fc := range p.cons.funcs {
		if fc.implements == "" {
			continue
		}
		base := p.cons.funcs[fc.pkg+"."+fc.implements]
		if base == nil {
			// contract of another package: "<package name>.iface:T.m"
			for k, b := range p.cons.funcs {
				if strings.HasSuffix(k, "/"+fc.implements) {
					base = b
				}
			}
		}
		if base == nil {
			return nil, fmt.Errorf("contract %s implements unknown contract %s", key, fc.implements)
		}
		fc.requires = append(append([]*clause{}, base.requires...), fc.requires...)
		var inherited []*clause
		for _, e := range base.ensures {
			// `[assumed:...]` clauses of an interface contract are assumptions about all implementations, stated where the
			// interface is called; they are not re-stated (nor checked) per implementation
			if !strings.HasPrefix(e.tag, "assumed:") {
				inherited = append(inherited, e)
			}
		}
		fc.ensures = append(inherited, fc.ensures...)
		if fc.assigns == nil {
			fc.assigns = base.assigns
		}
		if fc.panics == "" {
			fc.panics = base.panics
		}
		if fc.fdecr == nil {
			fc.fdecr = base.fdecr
			fc.decrGroup = base.decrGroup
		}
		if fc.props == nil {
			fc.props = base.props
		}
	}
	// "paramrule": a precondition shared by all functions of the package with parameters of the given names
	for _, pr := range p.cons.paramRules {
		for key, fc := range p.cons.funcs {
			fn, ok := p.funcs[key]
			if !ok || fc.pkg != pr.pkg || fc.noParamRules {
				continue
			}
			have := map[string]bool{}
			for _, prm := range fn.Params {
				have[prm.Name()] = true
			}
			all := true
			for _, n := range pr.params {
				if !have[n] {
					all = false
				}
			}
			if all && pr.ensures {
				// result rules speak of (r0 reflect.Value, r1 error)
				if rs := fn.Signature.Results(); rs.Len() == 2 && rs.At(0).Type().String() == "reflect.Value" {
					fc.ensures = append(fc.ensures, pr.cl)
				}
			} else if all {
				fc.requires = append(fc.requires, pr.cl)
			}
		}
	}
	// every contract must name an existing function
	for key := range p.cons.funcs {
		if _, ok := p.funcs[key]; !ok && !strings.Contains(key, ".iface:") && !strings.Contains(key, ".functype:") && !strings.Contains(key, ".lemma:") {
			p.cons.missing = append(p.cons.missing, key)
		}
	}
	return p, nil
}

func (p *program) pos(pos token.Pos) string {
	if !pos.IsValid() {
		return ""
	}
	ps := p.fset.Position(pos)
	rel, err := filepath.Rel(p.repo, ps.Filename)
	if err != nil {
		rel = ps.Filename
	}
	return fmt.Sprintf("%s:%d", rel, ps.Line)
}

func fnKey(fn *ssa.Function) string {
	if fn.Pkg == nil {
		if fn.Object() != nil && fn.Object().Pkg() != nil {
			return fn.Object().Pkg().Path() + "." + fn.RelString(fn.Object().Pkg())
		}
		return fn.String()
	}
	return fn.Pkg.Pkg.Path() + "." + fn.RelString(fn.Pkg.Pkg)
}

func isRepoFn(fn *ssa.Function) bool {
	if fn == nil || fn.Blocks == nil {
		return false
	}
	if fn.Pkg == nil {
		// synthetic wrapper of a promoted method on a repo type
		if fn.Synthetic != "" && fn.Signature.Recv() != nil {
			t := fn.Signature.Recv().Type()
			if p, ok := t.(*types.Pointer); ok {
				t = p.Elem()
			}
			return isRepoType(t)
		}
		return false
	}
	return strings.HasPrefix(fn.Pkg.Pkg.Path(), modPath)
}

// findGlobalInit returns the initialiser expression of a package-level variable
func (p *program) findGlobalInit(g *ssa.Global) (ast.Expr, *types.Info) {
	pk := p.ppkgs[g.Pkg.Pkg.Path()]
	if pk == nil {
		return nil, nil
	}
	for _, f := range pk.Syntax {
		for _, d := range f.Decls {
			gd, ok := d.(*ast.GenDecl)
			if !ok || gd.Tok != token.VAR {
				continue
			}
			for _, s := range gd.Specs {
				vs := s.(*ast.ValueSpec)
				for i, n := range vs.Names {
					if n.Name == g.Name() && len(vs.Values) == len(vs.Names) {
						return vs.Values[i], pk.TypesInfo
					}
				}
			}
		}
	}
	return nil, nil
}
