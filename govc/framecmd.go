package main

import (
	"flag"
	"fmt"
	"go/types"
	"os"
	"sort"
	"strings"

	"golang.org/x/tools/go/ssa"
)

// buildFrame configures and runs the ownership analysis from the directives in the contract files.
func buildFrame(p *program, global bool) (*frameAnalysis, []string) {
	fa := newFrameAnalysis(p)
	var problems []string
	rootNames := p.cons.frameRoots
	if global {
		fa.bad = rGlobal
		rootNames = p.cons.globalRoots
	}
	for k, q := range p.cons.fieldQual {
		switch q {
		case "owned":
			fa.ownedFields[k] = true
		case "shared":
			fa.sharedFields[k] = true
		default:
			problems = append(problems, "bad field qualifier "+k+" "+q)
		}
	}
	for _, t := range p.cons.evalTypes {
		fa.ownedTypes[t] = true
	}
	var roots []*ssa.Function
	for _, r := range rootNames {
		if strings.HasSuffix(r, ".*exported") {
			// every exported function of the package (e.g. the jlib functions bound in baseEnv)
			pkgPath := strings.TrimSuffix(r, ".*exported")
			var ks []string
			for k, fn := range p.funcs {
				if fn.Pkg.Pkg.Path() == pkgPath && fn.Signature.Recv() == nil && fn.Parent() == nil && token_IsExported(fn.Name()) {
					ks = append(ks, k)
				}
			}
			sort.Strings(ks)
			for _, k := range ks {
				roots = append(roots, p.funcs[k])
			}
			continue
		}
		fn, ok := p.funcs[r]
		if !ok {
			problems = append(problems, "frame root "+r+" does not exist")
			continue
		}
		roots = append(roots, fn)
	}
	fa.freshResult = map[string]bool{}
	for _, f := range p.cons.freshResults {
		if _, ok := p.funcs[f]; !ok {
			problems = append(problems, "freshresult function "+f+" does not exist")
		}
		fa.freshResult[f] = true
	}
	fa.reach(roots)
	fa.run()
	// evaluation-only types must not be allocated outside the analysed (evaluation-reachable) code
	for fn := range p.allFns {
		if global || !isRepoFn(fn) || fa.sums[fn] != nil || fn.Synthetic != "" {
			continue
		}
		for _, b := range fn.Blocks {
			for _, instr := range b.Instrs {
				if al, ok := instr.(*ssa.Alloc); ok {
					if fa.ownedTypes[typeKey(al.Type())] {
						problems = append(problems, fmt.Sprintf("evaluation-only type %s allocated outside evaluation-reachable code in %s", typeKey(al.Type()), fnKey(fn)))
					}
				}
			}
		}
	}
	return fa, problems
}

func token_IsExported(name string) bool {
	return name != "" && name[0] >= 'A' && name[0] <= 'Z'
}

func cmdFrame(args []string) {
	fs := flag.NewFlagSet("frame", flag.ExitOnError)
	repo := fs.String("repo", "/repo", "repository root")
	all := fs.Bool("all", false, "list discharged obligations too")
	global := fs.Bool("global", false, "package-level-state mode (roots: globalroot directives)")
	fs.Parse(args)
	p, err := loadProgram(*repo, verifDir())
	if err != nil {
		fmt.Fprintln(os.Stderr, "load:", err)
		os.Exit(2)
	}
	fa, problems := buildFrame(p, *global)
	for _, pr := range problems {
		fmt.Println("PROBLEM:", pr)
	}
	obs := fa.obligations()
	ok, bad := 0, 0
	for _, o := range obs {
		if o.ok {
			ok++
			if *all {
				fmt.Printf("ok    %-70s %s  %s [%s]\n", o.name, o.pos, o.what, o.region)
			}
		} else {
			bad++
			fmt.Printf("FAIL  %-70s %s\n        %s [%s]\n        %s\n", o.name, o.pos, o.what, o.region, o.why)
		}
	}
	fmt.Printf("%d functions analysed from %d roots; %d write obligations: %d owned, %d not\n", len(fa.order), len(fa.roots), len(obs), ok, bad)
}

var _ = types.Typ
