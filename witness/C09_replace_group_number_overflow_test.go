package jsonata

// Witness for the defect found by obligations jlib.runesToNumbers:arith:1 / :3 (properties C09 and C17): the group
// number after $ in a replacement string is accumulated digit by digit in an int without a bound; a long digit string
// wraps around to a negative number, expandReplaceString takes "number - 1 < len(groups)" as a valid group index and
// indexes the groups with it: $replace("abc", /b/, "$99999999999999999999") panicked with "index out of range
// [-8446744073709551618]" and the panic escaped Eval. Repaired by the commit recorded in /verif/known_findings.jsonl.

import (
	"testing"
)

func TestWitnessC09ReplaceGroupNumberOverflow(t *testing.T) {
	for _, prog := range []string{`$replace("abc", /b/, "$99999999999999999999")`, `$replace("abc", /(b)/, "$9999999999999999999")`} {
		func() {
			defer func() {
				if r := recover(); r != nil {
					t.Fatalf("WITNESS: %s panics: %v", prog, r)
				}
			}()
			if _, err := MustCompile(prog).Eval(nil); err != nil {
				t.Logf("%s: %v", prog, err)
			}
		}()
	}
}
