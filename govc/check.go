package main

import (
	"bufio"
	"encoding/json"
	"flag"
	"fmt"
	"os"
	"path/filepath"
	"sort"
	"strconv"
	"strings"
	"time"
)

// outDir: where evidence/ and replays/ are written (the verification directory, unless overridden for scratch runs)
var outDir string

type knownFinding struct {
	Property   string `json:"property"`
	Obligation string `json:"obligation"`
	Status     string `json:"status"` // open | fixed
	What       string `json:"what"`
	Witness    string `json:"witness,omitempty"`
	Commit     string `json:"commit,omitempty"`
}

type unclaimedEntry struct {
	Obligation string `json:"obligation"` // exact name, or prefix ending in *
	Reason     string `json:"reason"`
}

func loadJSONL(path string, mk func() interface{}, add func(interface{})) {
	f, err := os.Open(path)
	if err != nil {
		return
	}
	defer f.Close()
	sc := bufio.NewScanner(f)
	sc.Buffer(make([]byte, 1<<20), 1<<20)
	for sc.Scan() {
		ln := strings.TrimSpace(sc.Text())
		if ln == "" || strings.HasPrefix(ln, "#") {
			continue
		}
		v := mk()
		if err := json.Unmarshal([]byte(ln), v); err == nil {
			add(v)
		}
	}
}

func matchName(pattern, name string) bool {
	if strings.HasSuffix(pattern, "*") {
		return strings.HasPrefix(name, strings.TrimSuffix(pattern, "*"))
	}
	return pattern == name
}

type checkReport struct {
	prop        string
	tier        string
	seed        int
	violations  []string
	knownLines  []string
	obligations int
	discharged  int
	unclaimedN  int
	knownN      int
	bySolver    map[string]int
	solverS     float64
	samples     []interface{}
	slow        []interface{} // discharged obligations that took more than 3 s of solver time
	functions   []map[string]interface{}
	trusted     map[string]bool
	assumptions map[string]bool
	unclaimed   []string
	extra       map[string]interface{}
	wall        float64
	deadBlocks  []string
	isUnclaimed func(string) (string, bool)
	isKnown     func(string) *knownFinding
}

func cmdCheck(args []string) {
	if len(args) < 1 {
		usage()
	}
	prop := args[0]
	fs := flag.NewFlagSet("check", flag.ExitOnError)
	repo := fs.String("repo", "/repo", "repository root")
	tier := fs.String("tier", os.Getenv("VERIF_TIER"), "quick|thorough")
	jobs := fs.Int("jobs", defaultJobs(), "parallel obligations")
	noReplay := fs.Bool("no-replay", false, "skip counterexample replay")
	quiet := fs.Bool("q", false, "less output")
	only := fs.String("only", "", "development aid: restrict to functions whose key contains this substring (evidence is then partial)")
	fs.Parse(args[1:])
	if *tier == "" {
		*tier = "quick"
	}
	seed, _ := strconv.Atoi(os.Getenv("VERIF_SEED"))
	vdir := verifDir()
	outDir = vdir
	if d := os.Getenv("VERIF_EVIDENCE_DIR"); d != "" {
		// runs against a scratch copy (mutant self-test) must not overwrite the registered evidence and replays
		outDir = d
	}
	t0 := time.Now()
	rep := &checkReport{prop: prop, tier: *tier, seed: seed, bySolver: map[string]int{}, trusted: map[string]bool{}, assumptions: map[string]bool{}, extra: map[string]interface{}{}}
	p, err := loadProgram(*repo, vdir)
	if err != nil {
		// the tree does not build or a contract file is malformed: undecided, reported loudly
		fmt.Printf("govc: cannot load %s: %v\n", *repo, err)
		rp := writeReplayNote(outDir, prop, "load", "loading /repo failed: "+err.Error())
		fmt.Printf("VIOLATION property=%s replay=%s no-failing-input-found\n", prop, rp)
		rep.violations = append(rep.violations, "load")
		rep.wall = time.Since(t0).Seconds()
		writeEvidence(outDir, rep)
		os.Exit(1)
	}
	var known []knownFinding
	loadJSONL(filepath.Join(vdir, "known_findings.jsonl"), func() interface{} { return &knownFinding{} }, func(v interface{}) { known = append(known, *v.(*knownFinding)) })
	var unclaimed []unclaimedEntry
	loadJSONL(filepath.Join(vdir, "unclaimed.jsonl"), func() interface{} { return &unclaimedEntry{} }, func(v interface{}) { unclaimed = append(unclaimed, *v.(*unclaimedEntry)) })

	timeout := 20 // quick tier: claimed obligations discharge in well under half of this on an idle machine (see slow_obligations_over_3s)
	twoAgree := false
	if *tier == "thorough" {
		timeout = 60
		twoAgree = true
		probeInlined = true
	}
	work, _ := os.MkdirTemp("", "govc")
	defer os.RemoveAll(work)

	// 1. deductive part: functions under contract for this property
	var keys []string
	tagOnly := map[string]bool{} // functions selected only because some of their clauses are labelled with this property
	for k, fc := range p.cons.funcs {
		if fc.trusted || fc.inline || strings.Contains(k, ".iface:") || strings.Contains(k, ".functype:") {
			continue
		}
		if *only != "" && !strings.Contains(k, *only) {
			continue
		}
		if fc.hasProp(prop) {
			keys = append(keys, k)
		} else if fc.taggedFor(prop) {
			keys = append(keys, k)
			tagOnly[k] = true
		}
	}
	sort.Strings(keys)
	var results []*funcResult
	for _, k := range keys {
		if strings.Contains(k, ".lemma:") {
			results = append(results, verifyLemma(p, k, p.cons.funcs[k]))
			continue
		}
		fn, ok := p.funcs[k]
		if !ok {
			results = append(results, &funcResult{key: k, err: "function under contract no longer exists in the tree"})
			continue
		}
		t1 := time.Now()
		r := verifyFunction(p, fn, p.cons.funcs[k], false)
		r.genS = time.Since(t1).Seconds()
		// keep the obligations that belong to this property
		var keep []*obligation
		for _, o := range r.obls {
			if o.onlyProp != "" && !propMatch(o.onlyProp, prop) {
				continue
			}
			if tagOnly[k] && !propMatch(o.onlyProp, prop) && !o.canary {
				continue
			}
			keep = append(keep, o)
		}
		r.obls = keep
		if tagOnly[k] {
			r.reach = nil
		}
		results = append(results, r)
	}
	for _, k := range p.cons.missing {
		for _, pr := range p.cons.funcs[k].props {
			if pr == prop {
				results = append(results, &funcResult{key: k, err: "function under contract no longer exists in the tree"})
			}
		}
	}
	stats := dischargeAll(results, work, timeout, *jobs, twoAgree)
	rep.solverS = stats.secs
	for k, v := range stats.bySolver {
		rep.bySolver[k] = v
	}
	isUnclaimed := func(name string) (string, bool) {
		for _, u := range unclaimed {
			if matchName(u.Obligation, name) {
				return u.Reason, true
			}
		}
		return "", false
	}
	isKnown := func(name string) *knownFinding {
		for i := range known {
			if known[i].Status == "open" && known[i].Property == prop && matchName(known[i].Obligation, name) {
				return &known[i]
			}
		}
		return nil
	}
	rep.isUnclaimed, rep.isKnown = isUnclaimed, isKnown
	usedKnown := map[string]bool{}
	for _, r := range results {
		fi := map[string]interface{}{"function": r.key, "generator_s": round3(r.genS)}
		if r.err != "" {
			name := r.key + ":generator:0"
			fi["error"] = r.err
			rep.functions = append(rep.functions, fi)
			if _, un := isUnclaimed(name); un {
				rep.unclaimedN++
				continue
			}
			rep.obligations++
			rp := writeReplayNote(outDir, prop, name, "no obligations could be generated for "+r.key+": "+r.err)
			fmt.Printf("VIOLATION property=%s replay=%s no-failing-input-found\n", prop, rp)
			rep.violations = append(rep.violations, name)
			continue
		}
		nOb, nDis := 0, 0
		for _, o := range r.obls {
			if o.onlyProp != "" && !propMatch(o.onlyProp, prop) {
				continue
			}
			if tagOnly[r.key] && !propMatch(o.onlyProp, prop) && !o.canary {
				continue
			}
			if reason, un := isUnclaimed(o.name); un {
				rep.unclaimedN++
				rep.unclaimed = append(rep.unclaimed, o.name+": "+reason)
				continue
			}
			if o.status == "discharged" {
				nOb++
				nDis++
				if len(rep.samples) < 6 && !o.canary {
					rep.samples = append(rep.samples, map[string]interface{}{"obligation": o.name, "class": o.class, "at": o.pos, "what": o.desc, "solver": o.solver, "secs": round3(o.secs)})
				}
				// margin monitor: the slowest discharged obligations (those near the timeout are the unstable ones)
				if o.secs > 3 {
					rep.slow = append(rep.slow, map[string]interface{}{"obligation": o.name, "solver": o.solver, "secs": round3(o.secs)})
				}
				continue
			}
			if kf := isKnown(o.name); kf != nil {
				rep.knownN++
				usedKnown[kf.Obligation] = true
				rep.knownLines = append(rep.knownLines, fmt.Sprintf("KNOWN-FINDING: property=%s %s: %s", prop, o.name, kf.What))
				continue
			}
			nOb++
			// failed or undecided obligation that is claimed: violation
			rp, replayed := x_replay(p, r, o, outDir, prop, work, *noReplay, *repo)
			suffix := ""
			if !replayed {
				suffix = " no-failing-input-found"
			}
			fmt.Printf("VIOLATION property=%s replay=%s%s\n", prop, rp, suffix)
			if !*quiet {
				fmt.Printf("  obligation %s [%s] at %s: %s\n", o.name, o.status, o.pos, o.desc)
			}
			rep.violations = append(rep.violations, o.name)
		}
		var dead []string
		nReach := 0
		for _, o := range r.reach {
			if o.status == "unreachable" && !strings.HasPrefix(o.desc, "panic-block") {
				dead = append(dead, o.name+" at "+o.pos)
			} else if o.status == "discharged" {
				nReach++
			}
		}
		fi["blocks_reachable_under_contract"] = nReach
		if len(dead) > 0 {
			fi["dead_blocks_under_contract"] = dead
			rep.deadBlocks = append(rep.deadBlocks, dead...)
		}
		fi["obligations"] = nOb
		fi["discharged"] = nDis
		fi["callees_by_contract"] = r.byContract
		fi["inlined_callees"] = r.inlined
		if len(r.notes) > 0 {
			fi["abstraction_notes"] = r.notes
		}
		rep.functions = append(rep.functions, fi)
		rep.obligations += nOb
		rep.discharged += nDis
		for _, t := range r.trusted {
			rep.trusted[t] = true
		}
	}
	for _, l := range rep.knownLines {
		fmt.Println(l)
	}
	// 2. property-specific extra engines (frame calculus, bounded stand-ins)
	runExtras(p, rep, outDir, *repo, work)
	// 3. thorough tier: witnesses of the recorded findings against the real code
	if *tier == "thorough" {
		runWitnesses(rep, known, prop, *repo, vdir, outDir, work)
	}

	rep.wall = time.Since(t0).Seconds()
	writeEvidence(outDir, rep)
	if !*quiet {
		fmt.Printf("property %s [%s]: %d functions under contract, %d obligations claimed, %d discharged, %d known findings, %d unclaimed, %d violations, solver %.1fs, wall %.1fs\n",
			prop, *tier, len(results), rep.obligations, rep.discharged, rep.knownN, rep.unclaimedN, len(rep.violations), rep.solverS, rep.wall)
	}
	if len(rep.violations) > 0 {
		os.Exit(1)
	}
	if rep.obligations == 0 {
		fmt.Printf("govc: no obligations generated for %s — vacuous check\n", prop)
		os.Exit(2)
	}
}

func round3(f float64) float64 { return float64(int(f*1000+0.5)) / 1000 }

func writeReplayNote(dirRoot, prop, name, text string) string {
	dir := filepath.Join(dirRoot, "replays", prop)
	os.MkdirAll(dir, 0o755)
	base := mangle(name)
	if len(base) > 120 {
		base = base[len(base)-120:]
	}
	path := filepath.Join(dir, base+".txt")
	os.WriteFile(path, []byte("obligation: "+name+"\n"+text+"\n"), 0o644)
	return path
}

// x_replay extracts a model for a failed obligation, replays it on the real code and writes the replay file.
func x_replay(p *program, r *funcResult, o *obligation, vdir, prop, work string, skip bool, repo string) (string, bool) {
	dir := filepath.Join(vdir, "replays", prop)
	os.MkdirAll(dir, 0o755)
	base := mangle(strings.TrimPrefix(o.name, modPath+"/"))
	if len(base) > 120 {
		base = base[len(base)-120:]
	}
	note := fmt.Sprintf("obligation: %s\nclass: %s\nstatus: %s\nposition: %s\nwhat: %s\nsolver output:\n%s\n", o.name, o.class, o.status, o.pos, o.desc, o.output)
	txt := filepath.Join(dir, base+".txt")
	if skip || o.status != "failed" || r.x == nil {
		os.WriteFile(txt, []byte(note+"\nno model available (solver answered "+o.status+"); undischarged claimed obligation\n"), 0o644)
		return txt, false
	}
	x := r.x
	var trees []*cexNode
	var terms []string
	for _, in := range x.inputs {
		t := x.cexTree(in.term, in.typ, 0)
		trees = append(trees, t)
		t.terms(&terms)
	}
	script := r.script(o)
	var model map[string]string
	ok := false
	// preferences, tried in order: small inputs and failure in the first loop iteration (so that the entry state
	// reaches it directly), then small inputs only, then larger inputs
	for attempt, bound := range []int{8, 8, cexMaxStr} {
		var side []string
		for _, t := range trees {
			t.small(&side, bound)
		}
		if attempt == 0 {
			n := 0
			for _, p := range x.firstIter {
				if p.nDecl <= o.nDecl {
					side = append(side, p.term)
					n++
				}
			}
			if n == 0 {
				continue
			}
		}
		model, ok = getValues(work, base, script, terms, side, 20)
		if ok {
			break
		}
	}
	if !ok {
		os.WriteFile(txt, []byte(note+"\nmodel extraction failed (no small model within bounds)\n"), 0o644)
		return txt, false
	}
	src, inputs, ok := buildReplay(p, r, x, o, model, trees, "", prop)
	if !ok {
		os.WriteFile(txt, []byte(note+"\nmodel could not be concretised into Go inputs\n"), 0o644)
		return txt, false
	}
	gofile := filepath.Join(dir, base+"_test.go.txt")
	out := runReplay(repo, pkgDir(x.top.Pkg.Pkg.Path()), src, gofile)
	note += "\ncounterexample inputs: " + inputs + "\nreplay file: " + gofile + "\nreplay outcome: "
	if out.replayed {
		note += "REPLAYED on the real code: " + out.what + "\n"
	} else if out.ran {
		note += "not replayed (" + out.what + "): the concrete run showed no misbehaviour; obligation still undischarged\n"
	} else {
		note += "replay did not run\n" + firstLines(out.output, 30) + "\n"
	}
	note += "\n--- replay output ---\n" + firstLines(out.output, 40) + "\n"
	os.WriteFile(txt, []byte(note), 0o644)
	if out.replayed {
		return gofile, true
	}
	return txt, false
}

func writeEvidence(vdir string, rep *checkReport) {
	var trusted []string
	for k := range rep.trusted {
		trusted = append(trusted, k)
	}
	sort.Strings(trusted)
	trusted = append([]string{
		"Go toolchain and go/ssa (x/tools v0.29.0): the SSA form is taken to be the program",
		"govc VC generator (unverified; mitigated by vacuity canaries, must-fail mutants and counterexample replay)",
		"SMT solvers z3 4.8.12 / z3 5.1.0 / cvc5 1.0 (thorough tier: two must agree)",
		"machine integers modelled as mathematical integers; every signed + - * carries an explicit no-overflow obligation",
	}, trusted...)
	assumptions := []string{
		"callees without contract and without body model (stdlib) are assumed to terminate, not to panic and to write nothing visible, unless listed otherwise in trusted_base",
		"finiteness and acyclicity of inputs; stack depth and memory exhaustion are out of scope",
		"functions not listed in functions_under_contract are not verified by this check",
	}
	for k := range rep.assumptions {
		assumptions = append(assumptions, k)
	}
	sort.Strings(assumptions)
	cov := map[string]interface{}{
		"obligations":              rep.obligations,
		"discharged":               rep.discharged,
		"checker_cmd":              fmt.Sprintf("/verif/bin/govc check %s --tier %s", rep.prop, rep.tier),
		"trusted_base":             trusted,
		"samples":                  rep.samples,
		"slow_obligations_over_3s": rep.slow,
		"functions_under_contract": rep.functions,
		"by_solver":                rep.bySolver,
		"solver_s":                 round3(rep.solverS),
		"unclaimed_obligations":    rep.unclaimedN,
		"unclaimed":                rep.unclaimed,
		"known_findings_open":      rep.knownN,
		"explanation":              "weakest-precondition style VCs generated from go/ssa of /repo's working tree for every function under contract for this property; each obligation discharged by an SMT portfolio",
	}
	cov["vacuity"] = map[string]interface{}{
		"rule":                       "per function one exit-reachability canary that must be refuted (counted as an obligation) plus one soft reachability probe per basic block (incl. inlined callees); dead non-panic blocks are listed",
		"dead_blocks_under_contract": rep.deadBlocks,
	}
	for k, v := range rep.extra {
		cov[k] = v
	}
	if rep.samples == nil {
		cov["samples"] = []interface{}{}
	}
	level := "proof"
	if l, ok := rep.extra["level_override"].(string); ok {
		level = l
		delete(cov, "level_override")
	}
	ev := map[string]interface{}{
		"property_id": rep.prop,
		"tier":        rep.tier,
		"seed":        rep.seed,
		"level":       level,
		"coverage":    cov,
		"assumptions": assumptions,
		"wall_s":      round3(rep.wall),
		"violations":  len(rep.violations),
	}
	os.MkdirAll(filepath.Join(vdir, "evidence"), 0o755)
	data, _ := json.MarshalIndent(ev, "", " ")
	os.WriteFile(filepath.Join(vdir, "evidence", rep.prop+".json"), data, 0o644)
}
