package main

// fieldpred pkg.T.f pred: the declared invariant of field f applied to value v ("" when none is declared). The
// predicate takes one parameter and must hold for the zero value of the field's type (a freshly allocated object
// satisfies it before any store).
func (x *vc) fieldPredFormula(st *state, key string, v Val) string {
	if x.p.cons.fieldPred == nil || v.T == "" {
		return ""
	}
	pn, ok := x.p.cons.fieldPred[key]
	if !ok {
		return ""
	}
	pd, ok := x.p.cons.preds[pn]
	if !ok || len(pd.params) != 1 {
		return ""
	}
	env := &cenv{x: x, vars: map[string]Val{pd.params[0].name: v}, st: st, old: st}
	if sp, ok := x.p.spkgs[pd.pkg]; ok {
		env.pkg = sp.Pkg
	}
	return x.evalBool(env, pd.body)
}
