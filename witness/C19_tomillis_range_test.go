package jsonata

// Witness for the defect found on jlib.timeToMS (property C19; obligations timeToMS:lib:UnixNano:0 and the
// postcondition C19:milliseconds-of-the-instant): $toMillis computes t.UnixNano()/1e6, and UnixNano is undefined for
// instants outside 1678..2262 (the nanosecond count does not fit an int64): $toMillis("2300-01-01T00:00:00.000Z") is
// -8032952073709 and $toMillis($fromMillis(ms)) != ms for such instants, although the property covers years 1000..9999.
// Repaired by the commit recorded in /verif/known_findings.jsonl.

import (
	"testing"
)

func TestWitnessC19ToMillisRange(t *testing.T) {
	for prog, want := range map[string]float64{
		`$toMillis("2300-01-01T00:00:00.000Z")`:     10413792000000,
		`$toMillis($fromMillis(10413792000000))`:    10413792000000,
		`$toMillis("1000-01-01T00:00:00.000Z")`:     -30610224000000,
		`$toMillis($fromMillis(-30610224000000))`:   -30610224000000,
		`$toMillis("9999-12-31T23:59:59.999Z")`:     253402300799999,
		`$toMillis("1969-12-31T23:59:59.999Z")`:     -1,
		`$toMillis($fromMillis(1500000000123))`:     1500000000123,
	} {
		v, err := MustCompile(prog).Eval(nil)
		if err != nil {
			t.Fatalf("%s: %v", prog, err)
		}
		var got float64
		switch n := v.(type) {
		case float64:
			got = n
		case int64:
			got = float64(n)
		case int:
			got = float64(n)
		default:
			t.Fatalf("%s: unexpected result type %T", prog, v)
		}
		if got != want {
			t.Fatalf("WITNESS: %s = %v, want %v", prog, v, want)
		}
	}
}
