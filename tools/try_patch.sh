#!/bin/bash
# usage: try_patch.sh <patch.diff> <property-id>...   : apply a patch to a scratch worktree of /repo HEAD (+ working-tree contracts) and run the checks on it
set -u
export GOFLAGS=-mod=mod GOPROXY=off GOSUMDB=off GOTOOLCHAIN=local
patch=$1; shift
wt=$(mktemp -d ${TMPDIR:-/tmp}/govc-mut.XXXXXX)
rmdir $wt
git -C /repo worktree add --detach -q $wt HEAD || exit 2
trap 'git -C /repo worktree remove --force $wt >/dev/null 2>&1; rm -rf $wt' EXIT
# working-tree versions of the contract hook files
if [ "${USE_HEAD_CONTRACTS:-0}" != 1 ]; then for f in $(cd /repo && ls */zz_contracts_verif.go zz_contracts_verif.go */*/zz_contracts_verif.go 2>/dev/null); do cp /repo/$f $wt/$f; done; fi
if ! git -C $wt apply $patch; then echo "PATCH DOES NOT APPLY"; exit 3; fi
if [ "${RUN_TESTS:-0}" = 1 ]; then (cd $wt && go build ./... && go test -vet=off -count=1 ./... 2>&1 | grep -v "no test files" | tail -6); fi
rc=0
for p in "$@"; do
  VERIF_EVIDENCE_DIR=$wt/.evidence ${GOVC:-/verif/bin/govc} check $p --repo $wt -q ${GOVC_FLAGS:-} | sed "s#$wt#<scratch>#g" | grep -E "VIOLATION|KNOWN|property " ; 
done
