package jsonata

// Witnesses for the defects repaired in c2da080 and f24abb6 (properties C05, C06): evaluating v ~> $f(a) modified the
// compiled expression (the applied value was inserted into the shared call node again on every evaluation), and
// calling a built-in wrote the call site's name and context item into the shared function value.

import (
	"testing"
)

func TestWitnessC05RepeatableEvaluation(t *testing.T) {
	e := MustCompile(`4 ~> $power(2)`)
	before := e.String()
	for i := 0; i < 3; i++ {
		v, err := e.Eval(nil)
		if err != nil || v != float64(16) {
			t.Fatalf("WITNESS: evaluation %d of 4 ~> $power(2): %v %v", i+1, v, err)
		}
	}
	if e.String() != before {
		t.Fatalf("WITNESS: the compiled expression changed: %s -> %s", before, e.String())
	}
	// context item of one call site must not leak into another use of the same built-in
	v, err := MustCompile(`{"a": "x" ~> $uppercase(), "b": $uppercase("y")}`).Eval("ctx")
	if err != nil {
		t.Fatalf("%v", err)
	}
	m := v.(map[string]interface{})
	if m["a"] != "X" || m["b"] != "Y" {
		t.Fatalf("WITNESS: %v", m)
	}
}
