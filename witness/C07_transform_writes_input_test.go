package jsonata

// Witness for the known finding on C07 (and C06): a transform whose pattern selects
// an object outside the cloned argument writes into the caller's document.
// Run with:  cd /repo && go test -overlay <(echo '{"Replace":{"/repo/zz_w_test.go":"/verif/witness/C07_transform_writes_input_test.go"}}') ...
// (govc does this in the thorough tier).

import (
	"encoding/json"
	"reflect"
	"testing"
)

func TestWitnessC07TransformWritesInput(t *testing.T) {
	var doc, before interface{}
	src := `{"a":{"k":1},"b":2}`
	json.Unmarshal([]byte(src), &doc)
	json.Unmarshal([]byte(src), &before)
	for _, prog := range []string{`$ ~> |$$|{"x":1}|`, `a ~> |$$.a|{}, "k"|`} {
		e := MustCompile(prog)
		if _, err := e.Eval(doc); err != nil {
			t.Logf("%s: %v", prog, err)
		}
	}
	if !reflect.DeepEqual(doc, before) {
		b, _ := json.Marshal(doc)
		t.Fatalf("WITNESS: input document modified by transform: %s became %s", src, b)
	}
}
