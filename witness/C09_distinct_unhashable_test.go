package jsonata

// Witness for the defect found by obligation jlib.Distinct:hashable:1 (properties C09 and C15): $distinct keeps the
// set of values seen so far in a Go map keyed by the value itself; a member that is an array (or a function) is
// not hashable, so $distinct([[1],[1]]) panicked with "hash of unhashable type []interface {}" and the panic
// escaped Eval. Repaired by the commit recorded in /verif/known_findings.jsonl.

import (
	"encoding/json"
	"testing"
)

func TestWitnessC09DistinctUnhashable(t *testing.T) {
	for prog, want := range map[string]string{`$distinct([[1],[1],[2]])`: `[[1],[2]]`, `$distinct([[1],"[1]",[1]])`: `[[1],"[1]"]`, `$count($distinct([$sum, $sum]))`: `1`} {
		func() {
			defer func() {
				if r := recover(); r != nil {
					t.Fatalf("WITNESS: %s panics: %v", prog, r)
				}
			}()
			v, err := MustCompile(prog).Eval(nil)
			if err != nil {
				t.Fatalf("%s: %v", prog, err)
			}
			b, _ := json.Marshal(v)
			if string(b) != want {
				t.Fatalf("%s = %s, want %s", prog, b, want)
			}
		}()
	}
}
