//go:build verif

package jparse

// Contracts for package jparse, checked by /verif/govc. Comment-only file:
// with the build tag off it is not compiled, with it on it adds no code.

//@ pred lexOK(l *lexer) = l != nil && l.length == len(l.input) && 0 <= l.start && l.start <= l.current && l.current <= l.length && 0 <= l.width

//@ func (*lexer).nextRune
//@   requires lexOK(l)
//@   ensures lexOK(l)
//@   ensures (old(l.err) != nil || old(l.current) >= l.length) ==> (result == eof && l.width == 0 && l.current == old(l.current))
//@   ensures !(old(l.err) != nil || old(l.current) >= l.length) ==> (l.width == widthAt(l.input, old(l.current)) && l.width >= 1 && l.current == old(l.current) + l.width && result == runeAt(l.input, old(l.current)) && result >= 0)
//@   assigns l.width, l.current

//@ func (*lexer).backup
//@   requires lexOK(l) && l.width <= l.current - l.start
//@   ensures lexOK(l) && l.current == old(l.current) - l.width
//@   assigns l.current

//@ func (*lexer).ignore
//@   requires lexOK(l)
//@   ensures lexOK(l) && l.start == l.current
//@   assigns l.start
