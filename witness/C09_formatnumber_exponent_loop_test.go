package jsonata

// Witness for the termination defect in jxpath.FormatNumber (properties C09 and C18): with an exponent picture the
// mantissa is scaled by `for value < minMantissa { value *= 10; exponent-- }`. For value 0 the loop never ends
// (0*10 = 0), and for a negative value it never ends either (the value moves away from the bound):
// $formatNumber(0, "0.0e0") and $formatNumber(-5, "0.0e0") hang. Repaired by the commit recorded in
// /verif/known_findings.jsonl (the scaling uses the magnitude and skips zero).

import (
	"testing"
	"time"
)

func TestWitnessC09FormatNumberExponentLoop(t *testing.T) {
	for prog, want := range map[string]string{`$formatNumber(0, "0.0e0")`: "0.0e0", `$formatNumber(-5, "0.0e0")`: "-5.0e0", `$formatNumber(12345, "0.0e0")`: "1.2e4", `$formatNumber(0.00012, "0.0e0")`: "1.2e-4"} {
		done := make(chan interface{}, 1)
		go func() {
			v, err := MustCompile(prog).Eval(nil)
			if err != nil {
				done <- err
				return
			}
			done <- v
		}()
		select {
		case v := <-done:
			if v != want {
				t.Fatalf("%s = %v, want %s", prog, v, want)
			}
		case <-time.After(3 * time.Second):
			t.Fatalf("WITNESS: %s does not terminate", prog)
		}
	}
}
