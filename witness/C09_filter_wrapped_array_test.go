package jsonata

// Witness for the defect found by obligation applyFilter:rv:Len:1 (properties C09 and C02): a predicate whose value is
// an array of numbers reached through an interface-kinded reflect.Value (a member of an input array or object, e.g.
// a[$$.w.k] with {"a":[10,20,30],"w":{"k":[1]}}) made applyFilter call reflect.Value.Len on the interface Value,
// which panics; the panic escaped Eval. Repaired by the commit recorded in /verif/known_findings.jsonl (the test
// passes on the repaired tree and fails - by panicking - on the tree before it).

import (
	"encoding/json"
	"testing"
)

func TestWitnessC09FilterWrappedArray(t *testing.T) {
	var doc interface{}
	json.Unmarshal([]byte(`{"a":[10,20,30],"w":{"k":[1]},"idx":[[0,1]]}`), &doc)
	for prog, want := range map[string]string{`a[$$.w.k]`: `20`, `a[$$.idx[0]]`: `[10,20]`} {
		func() {
			defer func() {
				if r := recover(); r != nil {
					t.Fatalf("WITNESS: %s panics: %v", prog, r)
				}
			}()
			v, err := MustCompile(prog).Eval(doc)
			if err != nil {
				t.Fatalf("%s: %v", prog, err)
			}
			b, _ := json.Marshal(v)
			if string(b) != want {
				t.Fatalf("%s = %s, want %s", prog, b, want)
			}
		}()
	}
}
