package jsonata

// Witness for the defect found by obligation jxpath.formatYear:div0:0 (properties C09 and C19): the year is truncated
// to the requested width with y % pow10(width), and pow10 is computed in an int: for widths of 64 or more digits
// 10^width wraps around to 0 and the remainder divides by zero - $fromMillis(0, "[Y,*-64]") panicked with "integer
// divide by zero" and the panic escaped Eval. Repaired by the commit recorded in /verif/known_findings.jsonl.

import (
	"testing"
)

func TestWitnessC09FormatYearWidth(t *testing.T) {
	for prog, want := range map[string]string{`$fromMillis(0, "[Y,*-64]")`: "1970", `$fromMillis(0, "[Y,*-2]")`: "70", `$fromMillis(0, "[Y,*-19]")`: "1970", `$fromMillis(0, "[Y0001]")`: "1970"} {
		func() {
			defer func() {
				if r := recover(); r != nil {
					t.Fatalf("WITNESS: %s panics: %v", prog, r)
				}
			}()
			v, err := MustCompile(prog).Eval(nil)
			if err != nil {
				t.Fatalf("%s: %v", prog, err)
			}
			if v != want {
				t.Fatalf("%s = %v, want %s", prog, v, want)
			}
		}()
	}
}
