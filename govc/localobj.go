package main

import (
	"fmt"
	"go/types"
	"os"

	"golang.org/x/tools/go/ssa"
)

// ---------------------------------------------------------------------------
// Local objects: allocation sites of the function under verification whose objects cannot be reached by any
// callee (they are never passed to a call, never stored into memory a callee can reach, never captured).
// A callee - whatever its contract says it may write - cannot change such an object, so a havoc caused by a
// call keeps the contents of every object o with localobj(o). Objects of earlier loop iterations are not
// named by a term any more; loop invariants carry the fact with local(x).
//
// The analysis is intraprocedural and flow-insensitive over SSA values:
//   origins(v)  the sites v may point into (directly or through derived pointers / slices / interfaces)
//   ext(v)      v may (also) point to memory not allocated by a tracked site
//   holds(s)    the sites whose pointers may have been stored into objects of site s

type siteSet map[ssa.Value]bool

type escInfo struct {
	origins map[ssa.Value]siteSet
	ext     map[ssa.Value]bool
	holds   map[ssa.Value]siteSet
	esc     siteSet
	sites   []ssa.Value
	tail    siteSet // sites handed to a call in tail position (and not escaping otherwise): local until that call
}

// isTailCall: `return f(args)` - after the call only its results are extracted and returned
func isTailCall(in ssa.CallInstruction) bool {
	c, ok := in.(*ssa.Call)
	if !ok || c.Block() == nil {
		return false
	}
	instrs := c.Block().Instrs
	if len(instrs) == 0 {
		return false
	}
	if _, isRet := instrs[len(instrs)-1].(*ssa.Return); !isRet {
		return false
	}
	after := false
	for _, i := range instrs {
		if i == ssa.Instruction(c) {
			after = true
			continue
		}
		if !after {
			continue
		}
		switch i.(type) {
		case *ssa.Extract, *ssa.DebugRef, *ssa.Return:
		default:
			return false
		}
	}
	return after
}

func isSite(v ssa.Value) bool {
	switch v.(type) {
	case *ssa.Alloc, *ssa.MakeSlice, *ssa.MakeMap:
		return true
	}
	return false
}

func pointerLike(t types.Type) bool {
	switch u := t.Underlying().(type) {
	case *types.Pointer, *types.Slice, *types.Map, *types.Interface, *types.Signature, *types.Chan:
		return true
	case *types.Struct:
		for i := 0; i < u.NumFields(); i++ {
			if pointerLike(u.Field(i).Type()) {
				return true
			}
		}
	case *types.Array:
		return pointerLike(u.Elem())
	case *types.Tuple:
		for i := 0; i < u.Len(); i++ {
			if pointerLike(u.At(i).Type()) {
				return true
			}
		}
	}
	return false
}

// readOnlyCallee (set per program): the function is under a contract with an empty assigns clause
var readOnlyCallee func(fn *ssa.Function) bool

func escapeAnalysis(fn *ssa.Function) *escInfo {
	e := &escInfo{origins: map[ssa.Value]siteSet{}, ext: map[ssa.Value]bool{}, holds: map[ssa.Value]siteSet{}, esc: siteSet{}}
	changed := true
	addO := func(v ssa.Value, s siteSet) {
		if len(s) == 0 {
			return
		}
		m := e.origins[v]
		if m == nil {
			m = siteSet{}
			e.origins[v] = m
		}
		for k := range s {
			if !m[k] {
				m[k] = true
				changed = true
			}
		}
	}
	addH := func(w ssa.Value, s siteSet) {
		if len(s) == 0 {
			return
		}
		m := e.holds[w]
		if m == nil {
			m = siteSet{}
			e.holds[w] = m
		}
		for k := range s {
			if !m[k] {
				m[k] = true
				changed = true
			}
		}
	}
	setExt := func(v ssa.Value) {
		if !e.ext[v] {
			e.ext[v] = true
			changed = true
		}
	}
	var escape func(s siteSet)
	escape = func(s siteSet) {
		for k := range s {
			if !e.esc[k] {
				e.esc[k] = true
				changed = true
				escape(e.holds[k])
			}
		}
	}
	isExt := func(v ssa.Value) bool {
		switch v.(type) {
		case *ssa.Parameter, *ssa.Global, *ssa.FreeVar, *ssa.Function, *ssa.Builtin:
			return true
		case *ssa.Const:
			return false
		}
		return e.ext[v]
	}
	for _, b := range fn.Blocks {
		for _, in := range b.Instrs {
			if v, ok := in.(ssa.Value); ok && isSite(v) {
				e.sites = append(e.sites, v)
				e.origins[v] = siteSet{v: true}
			}
		}
	}
	for iter := 0; changed && iter < 50; iter++ {
		changed = false
		for _, b := range fn.Blocks {
			for _, instr := range b.Instrs {
				switch in := instr.(type) {
				case *ssa.FieldAddr:
					addO(in, e.origins[in.X])
					if isExt(in.X) {
						setExt(in)
					}
				case *ssa.IndexAddr:
					addO(in, e.origins[in.X])
					if isExt(in.X) {
						setExt(in)
					}
				case *ssa.Slice:
					addO(in, e.origins[in.X])
					if isExt(in.X) {
						setExt(in)
					}
				case *ssa.ChangeType:
					addO(in, e.origins[in.X])
					if isExt(in.X) {
						setExt(in)
					}
				case *ssa.Convert:
					addO(in, e.origins[in.X])
					if isExt(in.X) {
						setExt(in)
					}
				case *ssa.ChangeInterface:
					addO(in, e.origins[in.X])
					if isExt(in.X) {
						setExt(in)
					}
				case *ssa.MakeInterface:
					addO(in, e.origins[in.X])
					if isExt(in.X) {
						setExt(in)
					}
				case *ssa.TypeAssert:
					addO(in, e.origins[in.X])
					if isExt(in.X) {
						setExt(in)
					}
				case *ssa.Extract:
					addO(in, e.origins[in.Tuple])
					if isExt(in.Tuple) {
						setExt(in)
					}
				case *ssa.Phi:
					for _, ed := range in.Edges {
						addO(in, e.origins[ed])
						if isExt(ed) {
							setExt(in)
						}
					}
				case *ssa.Field: // field of a struct value
					addO(in, e.origins[in.X])
					if isExt(in.X) {
						setExt(in)
					}
				case *ssa.Index:
					addO(in, e.origins[in.X])
					if isExt(in.X) {
						setExt(in)
					}
				case *ssa.UnOp:
					if in.Op.String() == "*" {
						// load: what the pointed-to objects hold
						for w := range e.origins[in.X] {
							addO(in, e.holds[w])
						}
						if isExt(in.X) {
							setExt(in)
						}
					} else {
						addO(in, e.origins[in.X])
						if isExt(in.X) {
							setExt(in)
						}
					}
				case *ssa.Lookup:
					for w := range e.origins[in.X] {
						addO(in, e.holds[w])
					}
					if isExt(in.X) {
						setExt(in)
					}
				case *ssa.Range:
					addO(in, e.origins[in.X])
					if isExt(in.X) {
						setExt(in)
					}
				case *ssa.Next:
					for w := range e.origins[in.Iter] {
						addO(in, e.holds[w])
					}
					if isExt(in.Iter) {
						setExt(in)
					}
				case *ssa.Store:
					if !pointerLike(in.Val.Type()) {
						continue
					}
					for w := range e.origins[in.Addr] {
						addH(w, e.origins[in.Val])
						if e.esc[w] {
							escape(e.origins[in.Val])
						}
					}
					if isExt(in.Addr) || len(e.origins[in.Addr]) == 0 {
						escape(e.origins[in.Val])
					}
				case *ssa.MapUpdate:
					for w := range e.origins[in.Map] {
						addH(w, e.origins[in.Key])
						addH(w, e.origins[in.Value])
						if e.esc[w] {
							escape(e.origins[in.Key])
							escape(e.origins[in.Value])
						}
					}
					if isExt(in.Map) || len(e.origins[in.Map]) == 0 {
						escape(e.origins[in.Key])
						escape(e.origins[in.Value])
					}
				case *ssa.MakeClosure:
					// a closure that is only ever called directly, and whose body only reads and writes its captured
					// variables (never hands their addresses on), keeps them as private as they were
					if !closureKeepsBindingsLocal(in) {
						for _, bnd := range in.Bindings {
							escape(e.origins[bnd])
						}
					}
					setExt(in)
				case *ssa.Send:
					escape(e.origins[in.X])
				case *ssa.Select:
					for _, st := range in.States {
						if st.Send != nil {
							escape(e.origins[st.Send])
						}
					}
					setExt(in)
				case ssa.CallInstruction:
					cc := in.Common()
					v, _ := in.(ssa.Value)
					if bi, ok := cc.Value.(*ssa.Builtin); ok && !cc.IsInvoke() {
						switch bi.Name() {
						case "append":
							if v != nil {
								addO(v, e.origins[cc.Args[0]])
								if isExt(cc.Args[0]) {
									setExt(v)
								}
								if len(cc.Args) > 1 {
									for w := range e.origins[cc.Args[0]] {
										for w2 := range e.origins[cc.Args[1]] {
											addH(w, e.holds[w2])
										}
										if e.esc[w] {
											for w2 := range e.origins[cc.Args[1]] {
												escape(e.holds[w2])
											}
										}
									}
									if isExt(cc.Args[0]) || len(e.origins[cc.Args[0]]) == 0 {
										for w2 := range e.origins[cc.Args[1]] {
											escape(e.holds[w2])
										}
									}
								}
							}
							continue
						case "copy":
							for w := range e.origins[cc.Args[0]] {
								for w2 := range e.origins[cc.Args[1]] {
									addH(w, e.holds[w2])
								}
							}
							if isExt(cc.Args[0]) || len(e.origins[cc.Args[0]]) == 0 {
								for w2 := range e.origins[cc.Args[1]] {
									escape(e.holds[w2])
								}
							}
							continue
						case "len", "cap", "delete", "min", "max", "clear", "real", "imag", "complex", "print", "println", "ssa:wrapnilchk":
							if v != nil && bi.Name() == "ssa:wrapnilchk" {
								addO(v, e.origins[cc.Args[0]])
							}
							continue
						}
					}
					// a callee under a contract that writes nothing and returns no pointer cannot retain or change its arguments
					if sc := cc.StaticCallee(); sc != nil && !cc.IsInvoke() && readOnlyCallee != nil && readOnlyCallee(sc) && (v == nil || !pointerLike(v.Type())) {
						continue
					}
					// a call in tail position (`return f(args)`): nothing of this activation runs after it, so handing an object to
					// it does not make the object reachable by callees at any *earlier* point; such objects are "local until the
					// tail call" (preserved across earlier havocs, not across the tail call itself)
					if isTailCall(in) {
						for _, a := range cc.Args {
							for s := range e.origins[a] {
								if e.tail == nil {
									e.tail = siteSet{}
								}
								e.tail[s] = true
							}
						}
						if v != nil {
							setExt(v)
						}
						continue
					}
					// any other call: everything passed may be retained or written through
					for _, a := range cc.Args {
						escape(e.origins[a])
					}
					if cc.IsInvoke() || cc.StaticCallee() == nil {
						escape(e.origins[cc.Value])
					}
					if v != nil {
						setExt(v)
					}
				}
			}
		}
		// whatever an escaping object holds has escaped too
		for w := range e.esc {
			escape(e.holds[w])
		}
	}
	if os.Getenv("GOVC_DEBUG_ESC") != "" {
		for _, s := range e.sites {
			fmt.Fprintf(os.Stderr, "site %s = %s  escapes=%v\n", s.Name(), s.String(), e.esc[s])
		}
	}
	return e
}

func (e *escInfo) local(v ssa.Value) bool {
	return e != nil && isSite(v) && !e.esc[v]
}

// allLocal: every object v may point into is a non-escaping site (and v cannot point anywhere else)
func (e *escInfo) allLocal(v ssa.Value) bool {
	if e == nil || e.ext[v] || len(e.origins[v]) == 0 {
		return false
	}
	for s := range e.origins[v] {
		if e.esc[s] {
			return false
		}
	}
	return true
}

func (x *vc) needLocalobj() {
	x.needDecl("(declare-fun localobj (Int) Bool)")
	x.needDecl("(declare-fun localobj_t (Int) Bool)") // local until handed to the call in tail position
}

// localAny: an object no callee can reach yet (local for good, or local until the tail call)
func localAny(ref string) string {
	return or(app("localobj", ref), app("localobj_t", ref))
}

// markLocal is called after an instruction of the top frame was executed
func (x *vc) markLocal(fr *frame, st *state, instr ssa.Instruction) {
	if !fr.top || x.escInfo == nil {
		return
	}
	v, ok := instr.(ssa.Value)
	if !ok {
		return
	}
	val, have := fr.vals[v]
	if !have || val.T == "" {
		return
	}
	ref := ""
	// `owned x`: the value a callee returned into local x is an object nobody else holds (assumption, listed): treated
	// like an object of a non-escaping site from here on
	if x.topFC != nil && len(x.topFC.owned) > 0 {
		for _, name := range x.topFC.owned {
			for _, d := range fr.named[name] {
				if d.v == v && !d.addr {
					x.trusted["owned "+name+" in "+fr.fn.String()+": the object returned into this local is assumed unshared (no callee can reach it afterwards)"] = true
					switch x.srt.sortOf(val.Typ) {
					case sSlice:
						ref = app("sl_arr", val.T)
					case sInt:
						ref = val.T
					}
				}
			}
		}
	}
	switch in := instr.(type) {
	case *ssa.Alloc, *ssa.MakeMap:
		if x.escInfo.local(v) {
			ref = val.T
		}
	case *ssa.MakeSlice:
		if x.escInfo.local(v) {
			ref = app("sl_arr", val.T)
		}
	case *ssa.Call:
		if bi, ok := in.Call.Value.(*ssa.Builtin); ok && bi.Name() == "append" && x.escInfo.allLocal(v) {
			ref = app("sl_arr", val.T)
		}
	}
	if ref != "" {
		x.needLocalobj()
		x.hasLocal = true
		pred := "localobj"
		if x.escInfo.tail != nil {
			// handed to the call in tail position later on: local only until then
			if x.escInfo.tail[v] {
				pred = "localobj_t"
			}
			for s := range x.escInfo.origins[v] {
				if x.escInfo.tail[s] {
					pred = "localobj_t"
				}
			}
		}
		x.assume(st.guard, app(pred, ref))
	}
}

// preserveLocals: after a havoc of the whole heap caused by calls, the objects of non-escaping sites keep their contents.
// own: arrays the havocked region itself stores into (loop bodies), with the references when they are known.
func (x *vc) preserveLocals(old, cur map[string]string, own map[string][]string) {
	if !x.hasLocal {
		// objects of earlier iterations may be known to be local through an invariant before any site was executed
		any := false
		if x.escInfo != nil {
			for _, s := range x.escInfo.sites {
				if !x.escInfo.esc[s] {
					any = true
				}
			}
		}
		if !any {
			return
		}
		x.needLocalobj()
	}
	for k, o := range old {
		n := cur[k]
		if n == "" || n == o {
			continue
		}
		cond := localAny("r")
		if x.curTail || x.tailInline {
			cond = app("localobj", "r") // the havoc of the tail call itself: objects handed to it may be written by it
		}
		if refs, ok := own[k]; ok {
			skip := false
			for _, r := range refs {
				if r == "*" {
					skip = true
					break
				}
				cond = and(cond, not(eq("r", r)))
			}
			if skip {
				continue
			}
		}
		x.asserts = append(x.asserts, fmt.Sprintf("(assert (forall ((r Int)) (! (=> %s (= (select %s r) (select %s r))) :pattern ((select %s r)))))", cond, n, o, n))
	}
}
