package main

import (
	"fmt"
	"os"
	"path/filepath"
	"strconv"
	"strings"
	"unicode"
)

// ---------------------------------------------------------------------------
// Contract files: comment-only Go files whose `//@` lines carry the contracts.

type clause struct {
	kind string // requires, ensures, assigns, invariant, decreases, panics, ...
	loop int    // loop ordinal for invariant/decreases (else -1)
	text string
	expr *cexpr
	file string
	line int
	tag  string // optional label  e.g. "ensures[progress] ..."
}

type funcContract struct {
	pkg           string // package path
	name          string // e.g. (*lexer).backup, parseParams, makeLessFunc$1
	requires      []*clause
	ensures       []*clause
	assigns       []*clause // each may list several lvalues
	invs          map[int][]*clause
	decr          map[int]*clause
	panics        string // "" = must not panic; "*Error" ...
	inline        bool   // force inlining at call sites (no modular use)
	trusted       bool   // body not verified (assumed contract)
	noreturn      bool
	pure          bool
	props         []string // property ids this function is verified for
	implements    string   // key suffix of a functype/iface contract whose clauses this function must satisfy
	recovers      string   // a deferred function recovers panics of this type (callee panics of that type are not propagated)
	atcalls       []*atcall
	atstores      []*atstore // `atstore pkg.T.f requires e`: obligation at every store to that field in this function (`value` = stored value)
	preserves     []string   // parameters whose referent is assumed untouched by heap-writing callees (tree shape)
	abstractFloat bool       // float64 + - * / as uninterpreted functions (congruence only)
	atifs         []*atif     // `atif "cond" iff e`: the branch condition with that source text is equivalent to e where it is evaluated
	loopCalls     []*loopCall // `loop N calls callee#k`
	owned         []string    // locals holding call results assumed unshared (`owned x`)
	assumeFrame   bool       // assigns clause assumed, not checked (function values of unknown purity are called)
	splitReturns  bool     // one postcondition obligation per return statement instead of one over the merged exit state
	opaqueArith   bool      // integer arithmetic results as declared constants with defining equations (helps quantifier triggers)
	noParamRules  bool      // the package's paramrule preconditions do not apply (the function does not use those parameters)
	preciseAppend bool       // generate quantified content facts for append (needed only by functional contracts on slices)
	decrGroup     string     // recursion group of the measure: only calls within one group are compared
	fdecr         []*clause  // function-level termination measure (lexicographic), checked at every call in the recursion group
	file          string
	line          int
}

func (fc *funcContract) hasProp(p string) bool {
	for _, q := range fc.props {
		if q == p {
			return true
		}
	}
	return false
}

// taggedFor: some clause of the contract is labelled with the property id
func (fc *funcContract) taggedFor(p string) bool {
	is := func(tag string) bool { return propMatch(tagProp(tag), p) }
	for _, cl := range fc.requires {
		if is(cl.tag) {
			return true
		}
	}
	for _, cl := range fc.ensures {
		if is(cl.tag) {
			return true
		}
	}
	for _, ac := range fc.atcalls {
		if is(ac.cl.tag) {
			return true
		}
	}
	for _, as := range fc.atstores {
		if is(as.cl.tag) {
			return true
		}
	}
	for _, ai := range fc.atifs {
		if is(ai.cl.tag) {
			return true
		}
	}
	for _, lc := range fc.loopCalls {
		if is(lc.tag) {
			return true
		}
	}
	return false
}

// atstore: an in-body assertion anchored on a field (not on a line number): at every store to field in the function
// under verification, expr must hold in the state of the store; `value` names the stored value and the caller's
// locals are visible under their source names (closest dominating definition).
// atif: an in-body assertion anchored on the source text of a branch condition
type atif struct {
	cond string
	cl   *clause
	when *clause // optional guard
	// ordinal: -1 = every branch with this text; n = only the n-th one in generation order
	ordinal int
	seen bool
}

// loopCall: every completed iteration of loop N has executed the k-th call (in generation order) to callee
type loopCall struct {
	loop int
	call string // callee#k
	tag  string
	when *clause // optional: only iterations in which this holds when the back edge is taken
	seen bool
}

type atstore struct {
	field string
	cl    *clause
	seen  bool
}

// atcall: caller-side clause on the k-th call (in generation order) to a callee, e.g.
//
//	atcall parser.parseExpression#0 requires callee_rbp == bps[t.Type]
type atcall struct {
	callee  string
	ordinal int
	cl      *clause
	seen    bool
}

type predDef struct {
	pkg    string
	name   string
	params []param
	ret    string // for spec functions: declared sort/type text; "" for pred (bool)
	body   *cexpr
	text   string
	rec    bool
}

type param struct {
	name string
	typ  string
}

type contracts struct {
	funcs        map[string]*funcContract // key: pkgpath + "." + name
	preds        map[string]*predDef      // key: name (global across packages; pkg-qualified lookups first)
	files        []string
	hashes       map[string]string
	order        []string
	missing      []string // contracts whose function no longer exists
	fieldQual    map[string]string
	evalTypes    []string
	frameRoots   []string
	freshResults []string
	globalRoots  []string
	funcFields   map[string]string // "pkg.Type.field" -> function key
	nonnil       map[string]bool   // "field pkg.T.f" | "elems pkg.T" | "payload pkg.T"
	fieldRange   map[string][2]string
	mapInv       map[string]string // map type string -> predicate name over the stored value
	fieldPred    map[string]string // "pkg.T.f" -> predicate name over the field's value
	paramRules   []paramRule
}

// paramRule: a precondition shared by every function (of the declaring package) that has parameters of the given names
type paramRule struct {
	params  []string
	cl      *clause
	pkg     string
	ensures bool
}

func (c *contracts) get(key string) *funcContract { return c.funcs[key] }

var clauseKeywords = map[string]bool{"func": true, "pred": true, "spec": true, "requires": true, "ensures": true, "assigns": true,
	"loop": true, "panics": true, "inline": true, "trusted": true, "noreturn": true, "props": true, "pure": true,
	"field": true, "evaltype": true, "frameroot": true, "freshresult": true, "globalroot": true,
	"implements": true, "recovers": true, "decreases": true, "funcfield": true, "precise-append": true, "nonnil": true, "preserves": true, "atcall": true, "atstore": true, "opaque-arith": true, "split-returns": true, "atif": true, "owned": true, "mapinv": true, "abstract-float": true, "fieldrange": true, "fieldpred": true, "paramrule": true, "noparamrule": true}

func loadContractFile(c *contracts, path string, pkgpath string) error {
	data, err := os.ReadFile(path)
	if err != nil {
		return err
	}
	c.files = append(c.files, path)
	type rawClause struct {
		text string
		line int
	}
	var raws []rawClause
	for i, ln := range strings.Split(string(data), "\n") {
		t := strings.TrimSpace(ln)
		if !strings.HasPrefix(t, "//@") {
			continue
		}
		t = strings.TrimSpace(t[3:])
		if t == "" {
			continue
		}
		// strip trailing comment  " // ..."
		if k := strings.Index(t, " // "); k >= 0 {
			t = strings.TrimSpace(t[:k])
		}
		first := t
		if k := strings.IndexAny(t, " \t["); k >= 0 {
			first = t[:k]
		}
		if clauseKeywords[first] {
			raws = append(raws, rawClause{t, i + 1})
		} else if len(raws) > 0 {
			raws[len(raws)-1].text += " " + t
		} else {
			return fmt.Errorf("%s:%d: continuation without clause", path, i+1)
		}
	}
	var cur *funcContract
	var fileProps []string
	defer func() {
		for _, fc := range c.funcs {
			if fc.pkg == pkgpath && fc.props == nil {
				fc.props = fileProps
			}
		}
	}()
	for _, r := range raws {
		kw, rest := splitKw(r.text)
		tag := ""
		if strings.HasPrefix(rest, "[") && (kw == "ensures" || kw == "requires" || kw == "decreases" || kw == "atcall" || kw == "atstore" || kw == "atif") {
			k := strings.Index(rest, "]")
			tag = rest[1:k]
			rest = strings.TrimSpace(rest[k+1:])
		}
		mk := func(kind string, loop int, text string) (*clause, error) {
			e, err := parseCExpr(text)
			if err != nil {
				return nil, fmt.Errorf("%s:%d: %v (in %q)", path, r.line, err, text)
			}
			return &clause{kind: kind, loop: loop, text: text, expr: e, file: filepath.Base(path), line: r.line, tag: tag}, nil
		}
		switch kw {
		case "func":
			cur = &funcContract{pkg: pkgpath, name: rest, invs: map[int][]*clause{}, decr: map[int]*clause{}, file: filepath.Base(path), line: r.line}
			key := pkgpath + "." + rest
			if _, dup := c.funcs[key]; dup {
				return fmt.Errorf("%s:%d: duplicate contract for %s", path, r.line, key)
			}
			c.funcs[key] = cur
			c.order = append(c.order, key)
		case "requires", "ensures":
			if cur == nil {
				return fmt.Errorf("%s:%d: clause outside func", path, r.line)
			}
			cl, err := mk(kw, -1, rest)
			if err != nil {
				return err
			}
			if kw == "requires" {
				cur.requires = append(cur.requires, cl)
			} else {
				cur.ensures = append(cur.ensures, cl)
			}
		case "assigns":
			if cur == nil {
				return fmt.Errorf("%s:%d: clause outside func", path, r.line)
			}
			// `assigns assumed <targets>`: the frame is used by callers but not checked against the body (stated as an
			// assumption in the evidence): for functions that call function values whose purity the language cannot express
			if strings.HasPrefix(rest, "assumed ") {
				cur.assumeFrame = true
				rest = strings.TrimSpace(strings.TrimPrefix(rest, "assumed "))
			}
			for _, part := range splitTop(rest, ',') {
				part = strings.TrimSpace(part)
				if part == "" || part == "nothing" {
					continue
				}
				cl, err := mk("assigns", -1, part)
				if err != nil {
					return err
				}
				cur.assigns = append(cur.assigns, cl)
			}
			if cur.assigns == nil {
				cur.assigns = []*clause{}
			}
		case "loop":
			if cur == nil {
				return fmt.Errorf("%s:%d: clause outside func", path, r.line)
			}
			f := strings.Fields(rest)
			if len(f) < 3 {
				return fmt.Errorf("%s:%d: bad loop clause", path, r.line)
			}
			n, err := strconv.Atoi(f[0])
			if err != nil {
				return fmt.Errorf("%s:%d: bad loop ordinal", path, r.line)
			}
			body := strings.TrimSpace(strings.TrimPrefix(strings.TrimSpace(strings.TrimPrefix(rest, f[0])), f[1]))
			if strings.HasPrefix(body, "[") {
				if k := strings.Index(body, "]"); k > 0 {
					tag = body[1:k]
					body = strings.TrimSpace(body[k+1:])
				}
			}
			if f[1] == "calls" {
				// loop N calls callee#k : every iteration that reaches a back edge has made that call
				lc := &loopCall{loop: n, call: strings.TrimSpace(body), tag: tag}
				// loop N calls callee#k when <expr> : only iterations in which expr holds at the back edge
				if k := strings.Index(body, " when "); k > 0 {
					lc.call = strings.TrimSpace(body[:k])
					w, err := mk("loopcalls", n, strings.TrimSpace(body[k+6:]))
					if err != nil {
						return err
					}
					lc.when = w
				}
				cur.loopCalls = append(cur.loopCalls, lc)
				continue
			}
			cl, err := mk(f[1], n, body)
			if err != nil {
				return err
			}
			switch f[1] {
			case "invariant":
				cur.invs[n] = append(cur.invs[n], cl)
			case "decreases":
				cur.decr[n] = cl
			default:
				return fmt.Errorf("%s:%d: bad loop clause kind %s", path, r.line, f[1])
			}
		case "precise-append":
			cur.preciseAppend = true
		case "abstract-float":
			cur.abstractFloat = true
		case "opaque-arith":
			cur.opaqueArith = true
		case "noparamrule":
			cur.noParamRules = true
		case "split-returns":
			cur.splitReturns = true
		case "owned":
			cur.owned = append(cur.owned, strings.Fields(strings.ReplaceAll(rest, ",", " "))...)
		case "atif":
			// atif[tag] "<source text of the condition>" iff <expr>
			if cur == nil || !strings.HasPrefix(rest, "\"") {
				return fmt.Errorf("%s:%d: bad atif clause (atif \"cond text\" iff expr)", path, r.line)
			}
			k := strings.Index(rest[1:], "\"")
			if k < 0 {
				return fmt.Errorf("%s:%d: bad atif clause (unterminated condition text)", path, r.line)
			}
			text := rest[1 : k+1]
			body := strings.TrimSpace(rest[k+2:])
			// "text"#n : the n-th branch (in generation order, from 0) with that condition text; without #n, every one
			ordinal := -1
			if strings.HasPrefix(body, "#") {
				j := 1
				for j < len(body) && body[j] >= '0' && body[j] <= '9' {
					j++
				}
				ordinal, _ = strconv.Atoi(body[1:j])
				body = strings.TrimSpace(body[j:])
			}
			// optional guard:  atif "cond" when G iff E   (obligation: G ==> (cond <==> E))
			var when *clause
			if strings.HasPrefix(body, "when ") {
				k := strings.Index(body, " iff ")
				if k < 0 {
					return fmt.Errorf("%s:%d: bad atif clause (when without iff)", path, r.line)
				}
				w, err := mk("atif", -1, strings.TrimSpace(body[5:k]))
				if err != nil {
					return err
				}
				when = w
				body = strings.TrimSpace(body[k+1:])
			}
			if !strings.HasPrefix(body, "iff ") {
				return fmt.Errorf("%s:%d: bad atif clause (missing iff)", path, r.line)
			}
			cl, err := mk("atif", -1, strings.TrimSpace(body[4:]))
			if err != nil {
				return err
			}
			cur.atifs = append(cur.atifs, &atif{cond: text, cl: cl, when: when, ordinal: ordinal})
		case "atcall":
			// atcall <callee>#<k> requires <expr>
			f := strings.Fields(rest)
			if cur == nil || len(f) < 3 || f[1] != "requires" || !strings.Contains(f[0], "#") {
				return fmt.Errorf("%s:%d: bad atcall clause (atcall callee#k requires expr)", path, r.line)
			}
			parts := strings.SplitN(f[0], "#", 2)
			k, err := strconv.Atoi(parts[1])
			if err != nil {
				return fmt.Errorf("%s:%d: bad atcall ordinal", path, r.line)
			}
			body := strings.TrimSpace(strings.TrimPrefix(strings.TrimSpace(strings.TrimPrefix(rest, f[0])), "requires"))
			cl, err := mk("atcall", -1, body)
			if err != nil {
				return err
			}
			cur.atcalls = append(cur.atcalls, &atcall{callee: parts[0], ordinal: k, cl: cl})
		case "atstore":
			// atstore <pkg.T.f> requires <expr>
			f := strings.Fields(rest)
			if cur == nil || len(f) < 3 || f[1] != "requires" {
				return fmt.Errorf("%s:%d: bad atstore clause (atstore pkg.T.f requires expr)", path, r.line)
			}
			body := strings.TrimSpace(strings.TrimPrefix(strings.TrimSpace(strings.TrimPrefix(rest, f[0])), "requires"))
			cl, err := mk("atstore", -1, body)
			if err != nil {
				return err
			}
			cur.atstores = append(cur.atstores, &atstore{field: f[0], cl: cl})
		case "preserves":
			cur.preserves = append(cur.preserves, strings.Fields(strings.ReplaceAll(rest, ",", " "))...)
		case "implements":
			cur.implements = rest
		case "recovers":
			cur.recovers = rest
		case "decreases":
			if cur == nil {
				return fmt.Errorf("%s:%d: clause outside func", path, r.line)
			}
			cur.decrGroup = tag
			for _, part := range splitTop(rest, ',') {
				cl, err := mk("decreases", -1, strings.TrimSpace(part))
				if err != nil {
					return err
				}
				cur.fdecr = append(cur.fdecr, cl)
			}
		case "funcfield": // funcfield pkg.Type.field function : the field always holds exactly this function
			f := strings.Fields(rest)
			if len(f) != 2 {
				return fmt.Errorf("%s:%d: bad funcfield", path, r.line)
			}
			if c.funcFields == nil {
				c.funcFields = map[string]string{}
			}
			c.funcFields[f[0]] = pkgpath + "." + f[1]
			cur = nil
		case "panics":
			cur.panics = rest
		case "inline":
			cur.inline = true
		case "trusted":
			cur.trusted = true
		case "noreturn":
			cur.noreturn = true
		case "pure":
			cur.pure = true
		case "props":
			if cur == nil {
				fileProps = strings.Fields(rest)
			} else {
				cur.props = strings.Fields(rest)
			}
		case "field": // field Type.name owned|shared
			f := strings.Fields(rest)
			if len(f) != 2 {
				return fmt.Errorf("%s:%d: bad field qualifier", path, r.line)
			}
			if c.fieldQual == nil {
				c.fieldQual = map[string]string{}
			}
			c.fieldQual[f[0]] = f[1]
			cur = nil
		case "evaltype": // evaltype *pkg.T : objects of this type are only ever allocated by an evaluation
			c.evalTypes = append(c.evalTypes, strings.Fields(rest)...)
			cur = nil
		case "frameroot": // frameroot pkg.func : entry point of the ownership analysis (parameters are shared memory)
			c.frameRoots = append(c.frameRoots, strings.Fields(rest)...)
			cur = nil
		case "mapinv": // mapinv <map type as printed by go/types> <pred> : every value stored in a map of that type satisfies pred(value) (checked at map updates, assumed at lookups and range)
			k := strings.LastIndex(rest, " ")
			if k < 0 {
				return fmt.Errorf("%s:%d: bad mapinv directive (mapinv <map type> <pred>)", path, r.line)
			}
			if c.mapInv == nil {
				c.mapInv = map[string]string{}
			}
			c.mapInv[strings.TrimSpace(rest[:k])] = strings.TrimSpace(rest[k+1:])
			cur = nil
		case "fieldrange": // fieldrange pkg.T.f lo hi : data-structure invariant lo <= x.f <= hi (assumed at loads, checked at stores)
			f := strings.Fields(rest)
			if len(f) != 3 {
				return fmt.Errorf("%s:%d: bad fieldrange directive", path, r.line)
			}
			if c.fieldRange == nil {
				c.fieldRange = map[string][2]string{}
			}
			c.fieldRange[f[0]] = [2]string{f[1], f[2]}
			cur = nil
		case "paramrule": // paramrule p1 p2 ... requires e : every function under contract with parameters named p1, p2, ... requires e
			kind := "requires"
			k := strings.Index(rest, " requires ")
			if k < 0 {
				kind = "ensures"
				k = strings.Index(rest, " ensures ")
			}
			if k < 0 {
				return fmt.Errorf("%s:%d: bad paramrule directive", path, r.line)
			}
			cl, err := mk(kind, -1, strings.TrimSpace(rest[k+len(" "+kind+" "):]))
			if err != nil {
				return err
			}
			c.paramRules = append(c.paramRules, paramRule{params: strings.Fields(rest[:k]), cl: cl, pkg: pkgpath, ensures: kind == "ensures"})
			cur = nil
		case "fieldpred": // fieldpred pkg.T.f pred : data-structure invariant pred(x.f) (a one-parameter predicate that holds for the zero value; assumed at loads, checked at stores)
			f := strings.Fields(rest)
			if len(f) != 2 {
				return fmt.Errorf("%s:%d: bad fieldpred directive", path, r.line)
			}
			if c.fieldPred == nil {
				c.fieldPred = map[string]string{}
			}
			c.fieldPred[f[0]] = f[1]
			cur = nil
		case "nonnil": // data-structure invariants:  nonnil field T.f ... | nonnil elems T ... | nonnil payload T ...
			f := strings.Fields(rest)
			if len(f) < 2 {
				return fmt.Errorf("%s:%d: bad nonnil directive", path, r.line)
			}
			if c.nonnil == nil {
				c.nonnil = map[string]bool{}
			}
			for _, t := range f[1:] {
				c.nonnil[f[0]+" "+t] = true
			}
			cur = nil
		case "globalroot": // globalroot pkg.func : entry point of the "no write to package-level state" analysis
			c.globalRoots = append(c.globalRoots, strings.Fields(rest)...)
			cur = nil
		case "freshresult": // freshresult pkg.func : the first result refers only to memory allocated by the call
			c.freshResults = append(c.freshResults, strings.Fields(rest)...)
			cur = nil
		case "pred", "spec":
			// pred name(a T, b U) = expr      spec name(a T) R = expr
			k := strings.Index(rest, "(")
			if k < 0 {
				return fmt.Errorf("%s:%d: bad pred", path, r.line)
			}
			name := strings.TrimSpace(rest[:k])
			depth, j := 0, k
			for ; j < len(rest); j++ {
				if rest[j] == '(' {
					depth++
				} else if rest[j] == ')' {
					depth--
					if depth == 0 {
						break
					}
				}
			}
			ps := rest[k+1 : j]
			after := strings.TrimSpace(rest[j+1:])
			e := strings.Index(after, "=")
			if e < 0 {
				return fmt.Errorf("%s:%d: bad pred (no =)", path, r.line)
			}
			ret := strings.TrimSpace(after[:e])
			body := strings.TrimSpace(after[e+1:])
			pd := &predDef{pkg: pkgpath, name: name, ret: ret, text: body}
			for _, p := range splitTop(ps, ',') {
				p = strings.TrimSpace(p)
				if p == "" {
					continue
				}
				f := strings.Fields(p)
				if len(f) != 2 {
					return fmt.Errorf("%s:%d: bad pred param %q", path, r.line, p)
				}
				pd.params = append(pd.params, param{f[0], f[1]})
			}
			ex, err := parseCExpr(body)
			if err != nil {
				return fmt.Errorf("%s:%d: %v", path, r.line, err)
			}
			pd.body = ex
			c.preds[name] = pd
			cur = nil
		}
	}
	return nil
}

func splitKw(s string) (string, string) {
	k := strings.IndexAny(s, " \t[")
	if k < 0 {
		return s, ""
	}
	if s[k] == '[' {
		return s[:k], s[k:]
	}
	return s[:k], strings.TrimSpace(s[k:])
}

func splitTop(s string, sep byte) []string {
	var out []string
	depth, last := 0, 0
	for i := 0; i < len(s); i++ {
		switch s[i] {
		case '(', '[':
			depth++
		case ')', ']':
			depth--
		case sep:
			if depth == 0 {
				out = append(out, s[last:i])
				last = i + 1
			}
		}
	}
	out = append(out, s[last:])
	return out
}

// ---------------------------------------------------------------------------
// Contract expression language

type cexpr struct {
	op   string // id int float str char call sel idx slice old forall exists  + binary/unary operator symbols
	name string
	args []*cexpr
	pos  int
}

func (e *cexpr) String() string {
	switch e.op {
	case "id", "int", "float":
		return e.name
	case "str":
		return strconv.Quote(e.name)
	case "char":
		return "'" + e.name + "'"
	case "sel":
		return e.args[0].String() + "." + e.name
	case "call":
		var as []string
		for _, a := range e.args {
			as = append(as, a.String())
		}
		return e.name + "(" + strings.Join(as, ", ") + ")"
	case "idx":
		return e.args[0].String() + "[" + e.args[1].String() + "]"
	case "slice":
		lo, hi := "", ""
		if e.args[1] != nil {
			lo = e.args[1].String()
		}
		if e.args[2] != nil {
			hi = e.args[2].String()
		}
		return e.args[0].String() + "[" + lo + ":" + hi + "]"
	case "forall", "exists":
		return fmt.Sprintf("%s %s in [%s,%s): %s", e.op, e.name, e.args[0], e.args[1], e.args[2])
	case "not":
		return "!" + e.args[0].String()
	case "neg":
		return "-" + e.args[0].String()
	}
	if len(e.args) == 2 {
		return "(" + e.args[0].String() + " " + e.op + " " + e.args[1].String() + ")"
	}
	return e.op
}

type ctok struct {
	kind string // id num str char op eof
	text string
	pos  int
}

func clex(s string) ([]ctok, error) {
	var toks []ctok
	i := 0
	for i < len(s) {
		c := s[i]
		switch {
		case c == ' ' || c == '\t':
			i++
		case unicode.IsLetter(rune(c)) || c == '_' || c == '$':
			j := i + 1
			for j < len(s) && (unicode.IsLetter(rune(s[j])) || unicode.IsDigit(rune(s[j])) || s[j] == '_' || s[j] == '$') {
				j++
			}
			toks = append(toks, ctok{"id", s[i:j], i})
			i = j
		case c >= '0' && c <= '9':
			j := i + 1
			for j < len(s) && (s[j] >= '0' && s[j] <= '9' || s[j] == 'x' || s[j] == '_' || (s[j] >= 'a' && s[j] <= 'f') || (s[j] >= 'A' && s[j] <= 'F')) {
				j++
			}
			kind := "num"
			if j < len(s) && s[j] == '.' && j+1 < len(s) && s[j+1] >= '0' && s[j+1] <= '9' {
				j++
				for j < len(s) && (s[j] >= '0' && s[j] <= '9') {
					j++
				}
				kind = "float"
			}
			toks = append(toks, ctok{kind, s[i:j], i})
			i = j
		case c == '"':
			j := i + 1
			for j < len(s) && s[j] != '"' {
				if s[j] == '\\' {
					j++
				}
				j++
			}
			if j >= len(s) {
				return nil, fmt.Errorf("unterminated string")
			}
			v, err := strconv.Unquote(s[i : j+1])
			if err != nil {
				return nil, err
			}
			toks = append(toks, ctok{"str", v, i})
			i = j + 1
		case c == '\'':
			j := i + 1
			for j < len(s) && s[j] != '\'' {
				if s[j] == '\\' {
					j++
				}
				j++
			}
			if j >= len(s) {
				return nil, fmt.Errorf("unterminated char")
			}
			v, _, _, err := strconv.UnquoteChar(s[i+1:j], '\'')
			if err != nil {
				return nil, err
			}
			toks = append(toks, ctok{"char", strconv.Itoa(int(v)), i})
			i = j + 1
		default:
			ops := []string{"==>", "<==>", "==", "!=", "<=", ">=", "&&", "||", "..", "+", "-", "*", "/", "%", "<", ">", "!", "(", ")", "[", "]", ".", ",", ":", "?"}
			found := false
			for _, o := range ops {
				if strings.HasPrefix(s[i:], o) {
					toks = append(toks, ctok{"op", o, i})
					i += len(o)
					found = true
					break
				}
			}
			if !found {
				return nil, fmt.Errorf("unexpected character %q at %d", c, i)
			}
		}
	}
	toks = append(toks, ctok{"eof", "", len(s)})
	return toks, nil
}

type cparser struct {
	toks []ctok
	i    int
}

func parseCExpr(s string) (e *cexpr, err error) {
	toks, err := clex(s)
	if err != nil {
		return nil, err
	}
	p := &cparser{toks: toks}
	defer func() {
		if r := recover(); r != nil {
			if pe, ok := r.(parseErr); ok {
				e, err = nil, fmt.Errorf("%s", string(pe))
				return
			}
			panic(r)
		}
	}()
	e = p.impl()
	if p.peek().kind != "eof" {
		return nil, fmt.Errorf("trailing input at %d: %q", p.peek().pos, p.peek().text)
	}
	return e, nil
}

type parseErr string

func (p *cparser) peek() ctok { return p.toks[p.i] }
func (p *cparser) next() ctok { t := p.toks[p.i]; p.i++; return t }
func (p *cparser) isOp(o string) bool {
	t := p.peek()
	return t.kind == "op" && t.text == o
}
func (p *cparser) expect(o string) {
	if !p.isOp(o) {
		panic(parseErr(fmt.Sprintf("expected %q at %d, got %q", o, p.peek().pos, p.peek().text)))
	}
	p.i++
}

func (p *cparser) impl() *cexpr {
	l := p.or()
	if p.isOp("==>") {
		t := p.next()
		r := p.impl()
		return &cexpr{op: "==>", args: []*cexpr{l, r}, pos: t.pos}
	}
	if p.isOp("<==>") {
		t := p.next()
		r := p.or()
		return &cexpr{op: "<==>", args: []*cexpr{l, r}, pos: t.pos}
	}
	if p.isOp("?") {
		t := p.next()
		a := p.impl()
		p.expect(":")
		b := p.impl()
		return &cexpr{op: "ite", args: []*cexpr{l, a, b}, pos: t.pos}
	}
	return l
}

func (p *cparser) or() *cexpr {
	l := p.and()
	for p.isOp("||") {
		t := p.next()
		r := p.and()
		l = &cexpr{op: "||", args: []*cexpr{l, r}, pos: t.pos}
	}
	return l
}

func (p *cparser) and() *cexpr {
	l := p.cmp()
	for p.isOp("&&") {
		t := p.next()
		r := p.cmp()
		l = &cexpr{op: "&&", args: []*cexpr{l, r}, pos: t.pos}
	}
	return l
}

func (p *cparser) cmp() *cexpr {
	l := p.add()
	for {
		t := p.peek()
		if t.kind == "op" && (t.text == "==" || t.text == "!=" || t.text == "<" || t.text == "<=" || t.text == ">" || t.text == ">=") {
			p.i++
			r := p.add()
			// chained comparison a <= b < c
			n := &cexpr{op: t.text, args: []*cexpr{l, r}, pos: t.pos}
			t2 := p.peek()
			if t2.kind == "op" && (t2.text == "<" || t2.text == "<=" || t2.text == ">" || t2.text == ">=") && (t.text != "==" && t.text != "!=") {
				p.i++
				r2 := p.add()
				n2 := &cexpr{op: t2.text, args: []*cexpr{r, r2}, pos: t2.pos}
				return &cexpr{op: "&&", args: []*cexpr{n, n2}, pos: t.pos}
			}
			return n
		}
		return l
	}
}

func (p *cparser) add() *cexpr {
	l := p.mul()
	for p.isOp("+") || p.isOp("-") {
		t := p.next()
		r := p.mul()
		l = &cexpr{op: t.text, args: []*cexpr{l, r}, pos: t.pos}
	}
	return l
}

func (p *cparser) mul() *cexpr {
	l := p.unary()
	for p.isOp("*") || p.isOp("/") || p.isOp("%") {
		t := p.next()
		r := p.unary()
		l = &cexpr{op: t.text, args: []*cexpr{l, r}, pos: t.pos}
	}
	return l
}

func (p *cparser) unary() *cexpr {
	if p.isOp("!") {
		t := p.next()
		return &cexpr{op: "not", args: []*cexpr{p.unary()}, pos: t.pos}
	}
	if p.isOp("-") {
		t := p.next()
		return &cexpr{op: "neg", args: []*cexpr{p.unary()}, pos: t.pos}
	}
	return p.postfix()
}

func (p *cparser) postfix() *cexpr {
	e := p.primary()
	for {
		switch {
		case p.isOp("."):
			t := p.next()
			id := p.next()
			if id.kind != "id" {
				panic(parseErr(fmt.Sprintf("expected field name at %d", id.pos)))
			}
			e = &cexpr{op: "sel", name: id.text, args: []*cexpr{e}, pos: t.pos}
		case p.isOp("["):
			t := p.next()
			var lo, hi *cexpr
			if !p.isOp(":") {
				lo = p.impl()
			}
			if p.isOp(":") {
				p.next()
				if !p.isOp("]") {
					hi = p.impl()
				}
				p.expect("]")
				e = &cexpr{op: "slice", args: []*cexpr{e, lo, hi}, pos: t.pos}
			} else {
				p.expect("]")
				e = &cexpr{op: "idx", args: []*cexpr{e, lo}, pos: t.pos}
			}
		case p.isOp("(") && (e.op == "id" || e.op == "sel"):
			t := p.next()
			var args []*cexpr
			for !p.isOp(")") {
				args = append(args, p.impl())
				if p.isOp(",") {
					p.next()
				}
			}
			p.expect(")")
			name := e.name
			if e.op == "sel" { // pkg.func(...)
				name = e.args[0].String() + "." + e.name
			}
			e = &cexpr{op: "call", name: name, args: args, pos: t.pos}
		default:
			return e
		}
	}
}

func (p *cparser) primary() *cexpr {
	t := p.next()
	switch t.kind {
	case "num":
		return &cexpr{op: "int", name: t.text, pos: t.pos}
	case "float":
		return &cexpr{op: "float", name: t.text, pos: t.pos}
	case "str":
		return &cexpr{op: "str", name: t.text, pos: t.pos}
	case "char":
		return &cexpr{op: "int", name: t.text, pos: t.pos}
	case "id":
		if t.text == "forall" || t.text == "exists" {
			v := p.next()
			in := p.next()
			if v.kind != "id" || in.text != "in" {
				panic(parseErr("bad quantifier syntax: forall i in [lo,hi): P"))
			}
			// forall k in keys(m): P   - over the keys of a map
			if p.peek().kind == "id" && p.peek().text == "keys" {
				p.next()
				p.expect("(")
				m := p.impl()
				p.expect(")")
				p.expect(":")
				body := p.impl()
				return &cexpr{op: t.text + "keys", name: v.text, args: []*cexpr{m, body}, pos: t.pos}
			}
			p.expect("[")
			lo := p.impl()
			p.expect(",")
			hi := p.impl()
			p.expect(")")
			p.expect(":")
			body := p.impl()
			return &cexpr{op: t.text, name: v.text, args: []*cexpr{lo, hi, body}, pos: t.pos}
		}
		return &cexpr{op: "id", name: t.text, pos: t.pos}
	case "op":
		if t.text == "(" {
			// pointer-receiver method name like (*lexer) is not an expression; plain parenthesis
			e := p.impl()
			p.expect(")")
			return e
		}
	}
	panic(parseErr(fmt.Sprintf("unexpected token %q at %d", t.text, t.pos)))
}
