#!/bin/sh
# copy the contract mirror into /repo (hook files behind build tag verif)
set -e
for f in /verif/contracts/*.go; do
  b=$(basename $f .go)
  case $b in
    _) d=/repo ;;
    *) d=/repo/$(echo $b | sed 's/_/\//g') ;;
  esac
  [ -d "$d" ] && cp $f $d/zz_contracts_verif.go
done
