//go:build verif

package jsonata

// Contracts for package jsonata (root package), checked by /verif/govc.
// Comment-only file behind the build tag verif.

// ---------------------------------------------------------------------------
// jsonata.go: compilation entry points (C08)

//@ func Compile
//@   props C08
//@   ensures (r0 != nil && r1 == nil) || (r0 == nil && errOK(r1))

// MustCompile panics (with a string) exactly on the path where Compile returned an error.
//@ func MustCompile
//@   props C08
//@   ensures result != nil
//@   panics string

// ---------------------------------------------------------------------------
// Ownership / frame calculus configuration (properties C05, C06, C07)
//
// Entry points: their parameters denote memory that exists before the evaluation
// (the compiled expression, the input document, argument values of built-ins).

//@ frameroot github.com/blues/jsonata-go.(*Expr).Eval
//@ frameroot github.com/blues/jsonata-go.(*Expr).EvalBytes
//@ frameroot github.com/blues/jsonata-go/jlib.*exported
//@ frameroot github.com/blues/jsonata-go/jlib/jxpath.*exported

// Entry points that may run concurrently with evaluations (C06): they must not write package-level
// state other than the registry guarded by globalRegistryMutex.
//@ globalroot github.com/blues/jsonata-go.Compile
//@ globalroot github.com/blues/jsonata-go.MustCompile
//@ globalroot github.com/blues/jsonata-go.RegisterExts
//@ globalroot github.com/blues/jsonata-go.RegisterVars

// Results that callers modify, or that the statements require to be new values.
//@ freshresult github.com/blues/jsonata-go.(*transformationCallable).clone
//@ freshresult github.com/blues/jsonata-go.(*Expr).newEnv
//@ freshresult github.com/blues/jsonata-go.newEnvironment
//@ freshresult github.com/blues/jsonata-go.newSequence
//@ freshresult github.com/blues/jsonata-go.Compile
//@ freshresult github.com/blues/jsonata-go.timeCallables
//@ freshresult github.com/blues/jsonata-go/jlib.Reverse
//@ freshresult github.com/blues/jsonata-go/jlib.Sort
//@ freshresult github.com/blues/jsonata-go/jlib.Shuffle
//@ freshresult github.com/blues/jsonata-go/jlib.Zip
//@ freshresult github.com/blues/jsonata-go/jlib.Distinct

// Objects of these types are only ever allocated by evaluation-reachable code (checked)
// and, as long as no write to shared memory happens (which is what the owned
// obligations establish), never become reachable from shared memory.
//@ evaltype *jsonata.sequence *jsonata.environment *jsonata.lambdaCallable *jsonata.partialCallable
//@ evaltype *jsonata.transformationCallable *jsonata.chainCallable *jsonata.sortinfo
//@ evaltype *jsonata.regexCallable *jsonata.matchCallable *jsonata.undefinedCallable

// Field qualifiers: a field declared owned only ever holds memory allocated by the
// evaluation (every store into it is checked); a field declared shared always yields
// shared memory when loaded.
//@ field jsonata.sequence.values owned
//@ field jsonata.environment.symbols owned
//@ field jsonata.environment.parent shared
//@ field jsonata.sortinfo.values owned

// ---------------------------------------------------------------------------
// eval.go: the evaluator. `eval` is the induction hypothesis of every per-construct contract below: it
// returns a value or an error (never both), and a missing value is the invalid reflect.Value.
// E(n) in the comments = the value eval returns for sub-node n at that call: ret("eval#k", 0).

//@ pred evalErrIs(e error, t ErrType) = e != nil && typeis(e, "*EvalError") && dyn(e, "*EvalError") != nil && dyn(e, "*EvalError").Type == t

//@ func newEvalError
//@   props C03 C09
//@   ensures result != nil && result.Type == typ && fresh(result)
//@   assigns heap

//@ func eval
//@   requires nn(node)
//@   ensures r1 != nil ==> !valid(r0)
//@   assigns heap
//@   trusted

// --- C03: numeric operators -------------------------------------------------------------------------
// Statement: + - * / % compute the IEEE-754 double result (% = truncated remainder, sign of the dividend);
// a missing operand gives no value; a wrong-typed operand, an infinite or NaN result is an evaluation error
// of the corresponding kind and never a value.

//@ pred arithRes(r0 reflect.Value, r1 error, x float64) = (isInf(x) ==> (evalErrIs(r1, ErrNumberInf) && !valid(r0))) && (isNaN(x) ==> (evalErrIs(r1, ErrNumberNaN) && !valid(r0))) && (finite(x) ==> (r1 == nil && kind(r0) == 14 && same(fval(r0), x)))
//@ pred isNumV(v reflect.Value) = numKind(kind(res(v)))
//@ pred isF64V(v reflect.Value) = kind(res(v)) == 14

//@ func evalNumericOperator
//@   props C03 C09
//@   requires node != nil
//@   preserves node
//@   abstract-float
//@   ensures [C03:error-propagates] (ret("eval#0", 1) != nil ==> r1 == ret("eval#0", 1)) && ((ret("eval#0", 1) == nil && ret("eval#1", 1) != nil) ==> r1 == ret("eval#1", 1))
//@   ensures [C03:wrong-type-lhs] (ret("eval#0", 1) == nil && ret("eval#1", 1) == nil && valid(ret("eval#0", 0)) && !isNumV(ret("eval#0", 0))) ==> (evalErrIs(r1, ErrNonNumberLHS) && !valid(r0))
//@   ensures [C03:wrong-type-rhs] (ret("eval#0", 1) == nil && ret("eval#1", 1) == nil && (!valid(ret("eval#0", 0)) || isNumV(ret("eval#0", 0))) && valid(ret("eval#1", 0)) && !isNumV(ret("eval#1", 0))) ==> (evalErrIs(r1, ErrNonNumberRHS) && !valid(r0))
//@   ensures [C03:missing-operand] (ret("eval#0", 1) == nil && ret("eval#1", 1) == nil && (!valid(ret("eval#0", 0)) || isNumV(ret("eval#0", 0))) && (!valid(ret("eval#1", 0)) || isNumV(ret("eval#1", 0))) && (!valid(ret("eval#0", 0)) || !valid(ret("eval#1", 0)))) ==> (r1 == nil && !valid(r0))
//@   ensures [C03:add] (ret("eval#0", 1) == nil && ret("eval#1", 1) == nil && isF64V(ret("eval#0", 0)) && isF64V(ret("eval#1", 0)) && node.Type == jparse.NumericAdd) ==> arithRes(r0, r1, fval(res(ret("eval#0", 0))) + fval(res(ret("eval#1", 0))))
//@   ensures [C03:subtract] (ret("eval#0", 1) == nil && ret("eval#1", 1) == nil && isF64V(ret("eval#0", 0)) && isF64V(ret("eval#1", 0)) && node.Type == jparse.NumericSubtract) ==> arithRes(r0, r1, fval(res(ret("eval#0", 0))) - fval(res(ret("eval#1", 0))))
//@   ensures [C03:multiply] (ret("eval#0", 1) == nil && ret("eval#1", 1) == nil && isF64V(ret("eval#0", 0)) && isF64V(ret("eval#1", 0)) && node.Type == jparse.NumericMultiply) ==> arithRes(r0, r1, fval(res(ret("eval#0", 0))) * fval(res(ret("eval#1", 0))))
//@   ensures [C03:divide] (ret("eval#0", 1) == nil && ret("eval#1", 1) == nil && isF64V(ret("eval#0", 0)) && isF64V(ret("eval#1", 0)) && node.Type == jparse.NumericDivide) ==> arithRes(r0, r1, fval(res(ret("eval#0", 0))) / fval(res(ret("eval#1", 0))))
//@   ensures [C03:modulo] (ret("eval#0", 1) == nil && ret("eval#1", 1) == nil && isF64V(ret("eval#0", 0)) && isF64V(ret("eval#1", 0)) && node.Type == jparse.NumericModulo) ==> arithRes(r0, r1, fmod(fval(res(ret("eval#0", 0))), fval(res(ret("eval#1", 0)))))

//@ func evalNegation
//@   props C03 C09
//@   requires node != nil
//@   preserves node
//@   ensures [C03:error-propagates] ret("eval#0", 1) != nil ==> r1 == ret("eval#0", 1)
//@   ensures [C03:missing-operand] (ret("eval#0", 1) == nil && !valid(ret("eval#0", 0))) ==> (r1 == nil && !valid(r0))
//@   ensures [C03:wrong-type] (ret("eval#0", 1) == nil && valid(ret("eval#0", 0)) && !isNumV(ret("eval#0", 0))) ==> (evalErrIs(r1, ErrNonNumberRHS) && !valid(r0))
//@   ensures [C03:negate] (ret("eval#0", 1) == nil && isF64V(ret("eval#0", 0))) ==> (r1 == nil && kind(r0) == 14 && same(fval(r0), -fval(res(ret("eval#0", 0)))))
