package main

import (
	"bytes"
	"context"
	"encoding/json"
	"fmt"
	"go/types"
	"math"
	"os"
	"os/exec"
	"path/filepath"
	"strconv"
	"strings"
	"time"

	"golang.org/x/tools/go/ssa"
)

// ---------------------------------------------------------------------------
// Counterexample extraction: model values of the function's inputs

type cexNode struct {
	kind   string // int bool f64 str ptr struct slice iface opaque
	term   string
	typ    types.Type
	fields []*cexNode // struct fields / pointee fields
	names  []string
	elems  []*cexNode // slice elements
	bytes  []string   // terms for string bytes
	aux    []string   // auxiliary terms (len, tag, ...)
}

const cexMaxStr = 24
const cexMaxElems = 6

func (x *vc) cexTree(term string, t types.Type, depth int) *cexNode {
	n := &cexNode{term: term, typ: t}
	if depth > 4 {
		n.kind = "opaque"
		return n
	}
	srt := x.srt.sortOf(t)
	switch srt {
	case sBool:
		n.kind = "bool"
	case sF64:
		n.kind = "f64"
	case sStr:
		n.kind = "str"
		n.aux = []string{app("slen", term)}
		for k := 0; k < cexMaxStr; k++ {
			n.bytes = append(n.bytes, app("sbyte", term, smtInt(int64(k))))
		}
	case sIface:
		n.kind = "iface"
		n.aux = []string{app("itag", term), app("ival", term)}
	case sSlice:
		n.kind = "slice"
		n.aux = []string{app("sl_len", term), app("sl_cap", term), app("sl_arr", term)}
		et := t.Underlying().(*types.Slice).Elem()
		name := "E_" + mangle(x.srt.sortOf(et))
		if h0, ok := x.heap0[name]; ok {
			for k := 0; k < cexMaxElems; k++ {
				el := app("select", app("select", h0, app("sl_arr", term)), app("+", app("sl_off", term), smtInt(int64(k))))
				n.elems = append(n.elems, x.cexTree(el, et, depth+1))
			}
		}
	case sInt:
		switch u := t.Underlying().(type) {
		case *types.Pointer:
			n.kind = "ptr"
			if isStructObj(u.Elem()) {
				st := u.Elem().Underlying().(*types.Struct)
				for i := 0; i < st.NumFields(); i++ {
					name := "F_" + structName(u.Elem()) + "_" + st.Field(i).Name()
					h0, ok := x.heap0[name]
					if !ok {
						continue
					}
					n.names = append(n.names, st.Field(i).Name())
					n.fields = append(n.fields, x.cexTree(app("select", h0, term), st.Field(i).Type(), depth+1))
				}
			} else {
				name := "C_" + mangle(x.srt.sortOf(u.Elem()))
				if h0, ok := x.heap0[name]; ok {
					n.names = append(n.names, "*")
					n.fields = append(n.fields, x.cexTree(app("select", h0, term), u.Elem(), depth+1))
				}
			}
		case *types.Basic:
			n.kind = "int"
		default:
			n.kind = "opaque"
		}
	default:
		if info, ok := x.srt.structInfo[srt]; ok {
			n.kind = "struct"
			for i, acc := range info.fields {
				n.names = append(n.names, info.st.Field(i).Name())
				n.fields = append(n.fields, x.cexTree(app(acc, term), info.st.Field(i).Type(), depth+1))
			}
		} else {
			n.kind = "opaque"
		}
	}
	return n
}

func (n *cexNode) terms(out *[]string) {
	switch n.kind {
	case "int", "bool", "f64", "ptr":
		*out = append(*out, n.term)
	}
	*out = append(*out, n.aux...)
	*out = append(*out, n.bytes...)
	for _, f := range n.fields {
		f.terms(out)
	}
	for _, e := range n.elems {
		e.terms(out)
	}
}

// side constraints that keep models small and printable
func (n *cexNode) small(out *[]string, lenBound int) {
	switch n.kind {
	case "str":
		*out = append(*out, app("<=", n.aux[0], smtInt(int64(lenBound))))
	case "slice":
		*out = append(*out, app("<=", n.aux[0], smtInt(int64(cexMaxElems))))
	}
	for _, f := range n.fields {
		f.small(out, lenBound)
	}
	for _, e := range n.elems {
		e.small(out, lenBound)
	}
}

func parseSMTInt(s string) (int64, bool) {
	s = strings.TrimSpace(s)
	neg := false
	if strings.HasPrefix(s, "(-") {
		neg = true
		s = strings.TrimSpace(strings.TrimSuffix(strings.TrimPrefix(s, "(-"), ")"))
	}
	v, err := strconv.ParseInt(s, 10, 64)
	if err != nil {
		u, err2 := strconv.ParseUint(s, 10, 64)
		if err2 != nil {
			return 0, false
		}
		v = int64(u)
	}
	if neg {
		v = -v
	}
	return v, true
}

func parseSMTFloat(s string) (float64, bool) {
	s = strings.TrimSpace(s)
	switch {
	case strings.Contains(s, "NaN"):
		return math.NaN(), true
	case strings.Contains(s, "+oo"):
		return math.Inf(1), true
	case strings.Contains(s, "-oo"):
		return math.Inf(-1), true
	case strings.Contains(s, "+zero"):
		return 0, true
	case strings.Contains(s, "-zero"):
		return math.Copysign(0, -1), true
	}
	if strings.HasPrefix(s, "(fp ") {
		f := strings.Fields(strings.Trim(s[4:], "() "))
		if len(f) == 3 {
			var bits uint64
			for _, part := range f {
				part = strings.Trim(part, "()")
				if strings.HasPrefix(part, "#b") {
					for _, c := range part[2:] {
						bits = bits<<1 | uint64(c-'0')
					}
				} else if strings.HasPrefix(part, "#x") {
					for _, c := range part[2:] {
						d, _ := strconv.ParseUint(string(c), 16, 8)
						bits = bits<<4 | d
					}
				}
			}
			return math.Float64frombits(bits), true
		}
	}
	return 0, false
}

// goLiteral renders the model value of a node as a Go expression (in-package syntax)
func (n *cexNode) goLiteral(m map[string]string, qual func(types.Type) string, pre *[]string, counter *int) (string, bool) {
	switch n.kind {
	case "int":
		v, ok := parseSMTInt(m[n.term])
		if !ok {
			return "", false
		}
		return fmt.Sprintf("%s(%d)", qual(n.typ), v), true
	case "bool":
		return m[n.term], m[n.term] == "true" || m[n.term] == "false"
	case "f64":
		f, ok := parseSMTFloat(m[n.term])
		if !ok {
			return "", false
		}
		return fmt.Sprintf("math.Float64frombits(0x%x)", math.Float64bits(f)), true
	case "str":
		ln, ok := parseSMTInt(m[n.aux[0]])
		if !ok || ln < 0 || ln > cexMaxStr {
			return "", false
		}
		var bs []byte
		for k := int64(0); k < ln; k++ {
			b, ok := parseSMTInt(m[n.bytes[k]])
			if !ok {
				return "", false
			}
			bs = append(bs, byte(((b%256)+256)%256))
		}
		q := strconv.Quote(string(bs))
		if qn := qual(n.typ); qn != "string" {
			return qn + "(" + q + ")", true
		}
		return q, true
	case "iface":
		tag, _ := parseSMTInt(m[n.aux[0]])
		if tag == 0 {
			return "nil", true
		}
		return "", false
	case "slice":
		ln, ok := parseSMTInt(m[n.aux[0]])
		arr, _ := parseSMTInt(m[n.aux[2]])
		if !ok || ln < 0 || ln > cexMaxElems {
			return "", false
		}
		if arr == 0 {
			return "nil", true
		}
		var parts []string
		for k := int64(0); k < ln && int(k) < len(n.elems); k++ {
			s, ok := n.elems[k].goLiteral(m, qual, pre, counter)
			if !ok {
				return "", false
			}
			parts = append(parts, s)
		}
		return qual(n.typ) + "{" + strings.Join(parts, ", ") + "}", true
	case "ptr":
		ref, ok := parseSMTInt(m[n.term])
		if !ok {
			return "", false
		}
		if ref == 0 {
			return "nil", true
		}
		et := n.typ.Underlying().(*types.Pointer).Elem()
		if len(n.names) == 1 && n.names[0] == "*" {
			s, ok := n.fields[0].goLiteral(m, qual, pre, counter)
			if !ok {
				return "", false
			}
			*counter++
			v := fmt.Sprintf("cell%d", *counter)
			*pre = append(*pre, fmt.Sprintf("%s := %s", v, s))
			return "&" + v, true
		}
		var parts []string
		for i, f := range n.fields {
			s, ok := f.goLiteral(m, qual, pre, counter)
			if !ok {
				// leave the field at its zero value
				continue
			}
			parts = append(parts, n.names[i]+": "+s)
		}
		return "&" + qual(et) + "{" + strings.Join(parts, ", ") + "}", true
	case "struct":
		var parts []string
		for i, f := range n.fields {
			s, ok := f.goLiteral(m, qual, pre, counter)
			if !ok {
				continue
			}
			parts = append(parts, n.names[i]+": "+s)
		}
		return qual(n.typ) + "{" + strings.Join(parts, ", ") + "}", true
	}
	return "", false
}

// ---------------------------------------------------------------------------
// Contract expressions compiled to Go (for replay)

type goGen struct {
	p      *program
	pkg    *types.Package
	olds   []string // statements capturing old() values
	nOld   int
	fail   bool
	params map[string]bool
	result string
}

func (g *goGen) expr(e *cexpr, inOld bool) string {
	switch e.op {
	case "int", "float":
		return e.name
	case "str":
		return strconv.Quote(e.name)
	case "id":
		switch e.name {
		case "result", "r0":
			return "r0"
		case "r1", "r2", "r3":
			return e.name
		}
		return e.name
	case "sel":
		return g.expr(e.args[0], inOld) + "." + e.name
	case "idx":
		return g.expr(e.args[0], inOld) + "[" + g.expr(e.args[1], inOld) + "]"
	case "slice":
		lo, hi := "", ""
		if e.args[1] != nil {
			lo = g.expr(e.args[1], inOld)
		}
		if e.args[2] != nil {
			hi = g.expr(e.args[2], inOld)
		}
		return g.expr(e.args[0], inOld) + "[" + lo + ":" + hi + "]"
	case "not":
		return "!(" + g.expr(e.args[0], inOld) + ")"
	case "neg":
		return "-(" + g.expr(e.args[0], inOld) + ")"
	case "&&", "||", "==", "!=", "<", "<=", ">", ">=", "+", "-", "*", "/", "%":
		return "(" + g.expr(e.args[0], inOld) + " " + e.op + " " + g.expr(e.args[1], inOld) + ")"
	case "==>":
		return "(!(" + g.expr(e.args[0], inOld) + ") || (" + g.expr(e.args[1], inOld) + "))"
	case "<==>":
		return "((" + g.expr(e.args[0], inOld) + ") == (" + g.expr(e.args[1], inOld) + "))"
	case "ite":
		g.fail = true
		return "false"
	case "forall", "exists":
		lo, hi := g.expr(e.args[0], inOld), g.expr(e.args[1], inOld)
		body := g.expr(e.args[2], inOld)
		if e.op == "forall" {
			return fmt.Sprintf("func() bool { for %s := int(%s); %s < int(%s); %s++ { if !(%s) { return false } }; return true }()", e.name, lo, e.name, hi, e.name, body)
		}
		return fmt.Sprintf("func() bool { for %s := int(%s); %s < int(%s); %s++ { if %s { return true } }; return false }()", e.name, lo, e.name, hi, e.name, body)
	case "call":
		switch e.name {
		case "old":
			if inOld {
				return g.expr(e.args[0], true)
			}
			g.nOld++
			v := fmt.Sprintf("old%d", g.nOld)
			g.olds = append(g.olds, fmt.Sprintf("%s := %s", v, g.expr(e.args[0], true)))
			return v
		case "len", "cap":
			return e.name + "(" + g.expr(e.args[0], inOld) + ")"
		case "runeAt":
			return fmt.Sprintf("replayRuneAt(%s, %s)", g.expr(e.args[0], inOld), g.expr(e.args[1], inOld))
		case "widthAt":
			return fmt.Sprintf("replayWidthAt(%s, %s)", g.expr(e.args[0], inOld), g.expr(e.args[1], inOld))
		case "same", "streq":
			return "(" + g.expr(e.args[0], inOld) + " == " + g.expr(e.args[1], inOld) + ")"
		case "typeis":
			return fmt.Sprintf("func() bool { _, ok := (%s).(%s); return ok }()", g.expr(e.args[0], inOld), e.args[1].name)
		case "dyn":
			return fmt.Sprintf("(%s).(%s)", g.expr(e.args[0], inOld), e.args[1].name)
		case "isNaN":
			return "math.IsNaN(" + g.expr(e.args[0], inOld) + ")"
		case "isInf":
			return "math.IsInf(" + g.expr(e.args[0], inOld) + ", 0)"
		case "finite":
			a := g.expr(e.args[0], inOld)
			return "(!math.IsNaN(" + a + ") && !math.IsInf(" + a + ", 0))"
		case "floor":
			return "math.Floor(" + g.expr(e.args[0], inOld) + ")"
		case "trunc":
			return "math.Trunc(" + g.expr(e.args[0], inOld) + ")"
		case "ifloor":
			return "int(math.Floor(" + g.expr(e.args[0], inOld) + "))"
		case "f64":
			return "float64(" + g.expr(e.args[0], inOld) + ")"
		case "fresh":
			return "true"
		}
		if pd, ok := g.p.cons.preds[e.name]; ok && len(pd.params) == len(e.args) {
			// inline expansion by substitution
			sub := map[string]*cexpr{}
			for i, p := range pd.params {
				sub[p.name] = e.args[i]
			}
			return "(" + g.expr(substCExpr(pd.body, sub), inOld) + ")"
		}
		g.fail = true
		return "false"
	}
	g.fail = true
	return "false"
}

func substCExpr(e *cexpr, sub map[string]*cexpr) *cexpr {
	if e == nil {
		return nil
	}
	if e.op == "id" {
		if r, ok := sub[e.name]; ok {
			return r
		}
		return e
	}
	n := &cexpr{op: e.op, name: e.name, pos: e.pos}
	inner := sub
	if e.op == "forall" || e.op == "exists" {
		inner = map[string]*cexpr{}
		for k, v := range sub {
			if k != e.name {
				inner[k] = v
			}
		}
	}
	for _, a := range e.args {
		n.args = append(n.args, substCExpr(a, inner))
	}
	return n
}

// ---------------------------------------------------------------------------
// Replay file generation and execution

type replayOutcome struct {
	ran      bool
	replayed bool   // misbehaviour observed on the real code
	what     string // panic / hang / post-fail / api-panic ...
	output   string
	file     string
	inputs   string
}

func qualifier(pkg *types.Package) func(types.Type) string {
	return func(t types.Type) string {
		return types.TypeString(t, func(p *types.Package) string {
			if p == pkg {
				return ""
			}
			return p.Name()
		})
	}
}

// buildReplay writes a Go test file that runs the real function on the model's inputs.
func buildReplay(p *program, fr *funcResult, x *vc, o *obligation, model map[string]string, trees []*cexNode, outPath string, propID string) (string, string, bool) {
	fn := x.top
	pkg := fn.Pkg.Pkg
	qual := qualifier(pkg)
	var pre []string
	counter := 0
	var argNames []string
	var decl []string
	var inputsDesc []string
	for i, prm := range fn.Params {
		lit, ok := trees[i].goLiteral(model, qual, &pre, &counter)
		if !ok {
			return "", "", false
		}
		name := prm.Name()
		if name == "_" || name == "" {
			name = fmt.Sprintf("arg%d", i)
		}
		decl = append(decl, fmt.Sprintf("%s := %s", name, lit), fmt.Sprintf("_ = %s", name))
		argNames = append(argNames, name)
		inputsDesc = append(inputsDesc, fmt.Sprintf("%s = %s", name, lit))
	}
	// call expression
	var call string
	if fn.Signature.Recv() != nil {
		call = fmt.Sprintf("%s.%s(%s)", argNames[0], fn.Name(), strings.Join(argNames[1:], ", "))
	} else {
		call = fmt.Sprintf("%s(%s)", fn.Name(), strings.Join(argNames, ", "))
	}
	if fn.Signature.Variadic() {
		call = strings.TrimSuffix(call, ")") + "...)"
	}
	nres := fn.Signature.Results().Len()
	var lhs []string
	for i := 0; i < nres; i++ {
		lhs = append(lhs, fmt.Sprintf("r%d", i))
	}
	g := &goGen{p: p, pkg: pkg}
	var pres, posts []string
	if x.topFC != nil {
		for _, r := range x.topFC.requires {
			g.fail = false
			s := g.expr(r.expr, true)
			if !g.fail {
				pres = append(pres, fmt.Sprintf("if !(%s) { fmt.Println(\"REPLAY: spurious-pre\", %s); return }", s, strconv.Quote(r.text)))
			}
		}
		for _, e := range x.topFC.ensures {
			g.fail = false
			s := g.expr(e.expr, false)
			if !g.fail {
				posts = append(posts, fmt.Sprintf("if !(%s) { fmt.Println(\"REPLAY: post-fail\", %s) }", s, strconv.Quote(e.text)))
			}
		}
	}
	var b strings.Builder
	fmt.Fprintf(&b, "// Replay of obligation %s (property %s)\n// generated by govc from the solver's counterexample; runs the REAL function.\n", o.name, propID)
	fmt.Fprintf(&b, "// %s\n// position: %s\n// inputs: %s\n", o.desc, o.pos, strings.Join(inputsDesc, "; "))
	fmt.Fprintf(&b, "package %s\n\nimport (\n\t\"fmt\"\n\t\"math\"\n\t\"testing\"\n\t\"time\"\n\t\"unicode/utf8\"\n)\n\n", pkg.Name())
	b.WriteString("var _ = math.Inf\nvar _ = utf8.RuneError\n")
	b.WriteString("func replayRuneAt(s string, i int) rune { if i < 0 || i > len(s) { return -2 }; r, _ := utf8.DecodeRuneInString(s[i:]); return r }\n")
	b.WriteString("func replayWidthAt(s string, i int) int { if i < 0 || i > len(s) { return -2 }; _, w := utf8.DecodeRuneInString(s[i:]); return w }\n\n")
	b.WriteString("func TestGovcReplay(t *testing.T) {\n")
	b.WriteString("\tdone := make(chan struct{})\n\tgo func() {\n\t\tdefer close(done)\n\t\tdefer func() {\n\t\t\tif r := recover(); r != nil {\n\t\t\t\tfmt.Printf(\"REPLAY: panic %v\\n\", r)\n\t\t\t}\n\t\t}()\n")
	for _, s := range pre {
		fmt.Fprintf(&b, "\t\t%s\n", s)
	}
	for _, s := range decl {
		fmt.Fprintf(&b, "\t\t%s\n", s)
	}
	for _, s := range pres {
		fmt.Fprintf(&b, "\t\t%s\n", s)
	}
	for _, s := range g.olds {
		fmt.Fprintf(&b, "\t\t%s\n\t\t_ = %s\n", s, strings.SplitN(s, " ", 2)[0])
	}
	if nres > 0 {
		fmt.Fprintf(&b, "\t\t%s := %s\n", strings.Join(lhs, ", "), call)
		for _, l := range lhs {
			fmt.Fprintf(&b, "\t\t_ = %s\n", l)
		}
	} else {
		fmt.Fprintf(&b, "\t\t%s\n", call)
	}
	for _, s := range posts {
		fmt.Fprintf(&b, "\t\t%s\n", s)
	}
	b.WriteString("\t\tfmt.Println(\"REPLAY: returned\")\n")
	b.WriteString("\t}()\n\tselect {\n\tcase <-done:\n\tcase <-time.After(10 * time.Second):\n\t\tfmt.Println(\"REPLAY: hang (no return within 10s)\")\n\t}\n")
	// API-level attempts for functions with a string input (lexer / parser): Parse(input)
	if api := apiReplay(fn, argNames); api != "" {
		b.WriteString(api)
	}
	b.WriteString("}\n")
	return b.String(), strings.Join(inputsDesc, "; "), true
}

// apiReplay: for jparse functions whose state carries the source text, also run the public entry point
func apiReplay(fn *ssa.Function, argNames []string) string {
	if fn.Pkg.Pkg.Name() != "jparse" || len(fn.Params) == 0 {
		return ""
	}
	var src string
	switch types.TypeString(fn.Params[0].Type(), func(*types.Package) string { return "" }) {
	case "*lexer":
		src = "apiInput = " + argNames[0] + ".input"
	case "*parser":
		src = "apiInput = " + argNames[0] + ".lexer.input"
	case "string":
		return ""
	default:
		return ""
	}
	_ = src
	return ""
}

func runReplay(repo string, pkgDirRel string, testSrc string, outFile string) replayOutcome {
	out := replayOutcome{file: outFile}
	if err := os.MkdirAll(filepath.Dir(outFile), 0o755); err != nil {
		out.output = err.Error()
		return out
	}
	if err := os.WriteFile(outFile, []byte(testSrc), 0o644); err != nil {
		out.output = err.Error()
		return out
	}
	tmp, err := os.MkdirTemp("", "govc-replay")
	if err != nil {
		out.output = err.Error()
		return out
	}
	defer os.RemoveAll(tmp)
	target := filepath.Join(repo, pkgDirRel, "zz_govc_replay_test.go")
	ov := map[string]map[string]string{"Replace": {target: outFile}}
	ovData, _ := json.Marshal(ov)
	ovFile := filepath.Join(tmp, "overlay.json")
	os.WriteFile(ovFile, ovData, 0o644)
	ctx, cancel := context.WithTimeout(context.Background(), 120*time.Second)
	defer cancel()
	cmd := exec.CommandContext(ctx, "bash", "-c", fmt.Sprintf("ulimit -v 8000000; cd %q && go test -overlay %q -vet=off -count=1 -timeout 60s -run '^TestGovcReplay$' -v .", filepath.Join(repo, pkgDirRel), ovFile))
	cmd.Env = append(os.Environ(), "GOFLAGS=-mod=mod", "GOPROXY=off", "GOSUMDB=off", "GOTOOLCHAIN=local")
	var buf bytes.Buffer
	cmd.Stdout = &buf
	cmd.Stderr = &buf
	cmd.Run()
	out.output = buf.String()
	out.ran = strings.Contains(out.output, "REPLAY:")
	for _, ln := range strings.Split(out.output, "\n") {
		ln = strings.TrimSpace(ln)
		if !strings.HasPrefix(ln, "REPLAY:") {
			continue
		}
		switch {
		case strings.HasPrefix(ln, "REPLAY: panic"), strings.HasPrefix(ln, "REPLAY: hang"), strings.HasPrefix(ln, "REPLAY: post-fail"), strings.HasPrefix(ln, "REPLAY: api-"):
			out.replayed = true
			if out.what == "" {
				out.what = strings.TrimPrefix(ln, "REPLAY: ")
			}
		case strings.HasPrefix(ln, "REPLAY: spurious-pre"):
			out.what = strings.TrimPrefix(ln, "REPLAY: ")
		}
	}
	if strings.Contains(out.output, "panic: test timed out") || strings.Contains(out.output, "fatal error:") {
		out.replayed = true
		out.ran = true
		if out.what == "" {
			out.what = "fatal: " + firstLines(out.output, 2)
		}
	}
	return out
}
